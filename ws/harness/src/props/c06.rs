//! C06 — rounding to a scale obeys each of the seven rounding modes.

use crate::conv::{build_cfg, dec_of, rm};
use crate::engine::{Ctx, Tier, Verdict};
use crate::ensure;
use crate::gen::{self, D};
use bdoracle::round::{round_pair_spec, round_to_scale, ALL_MODES};
use bigdecimal::num_bigint::Sign;
use num_bigint::BigInt;
use proptest::prelude::*;
use serde::{Deserialize, Serialize};
use std::num::NonZeroU8;

pub const RULE: &str = "case = (decimal, target scale, mode) [or one argument tuple of round_pair / round_u32]; with_scale_round must return exactly the requested scale and the integer the quotient/remainder oracle prescribes; with_scale == Down; round(n) == configured mode; non-trivial = digits are discarded and the discarded part is non-zero; distinct = enumerated tuples / structural hash";
pub const EXPLANATION: &str = "Oracle: |n| div/rem 10^k, then 2*rem against 10^k, sign-aware for Floor/Ceiling, parity for HalfEven. Exhaustive stages: all 4200 round_pair arguments; round_u32 over digit index 1..9 x values < 10^5 (and boundary values) x modes x signs x tail flag; every |n| below the tier limit x scales -3..8 x every target scale from 4 left of the leading digit to 4 right of the last x 7 modes. Generated: up to 3000 digits with tie / near-tie / all-nines tails and targets inside, at and left of the leading digit.";

#[derive(Clone, Debug, Hash, Serialize, Deserialize)]
pub struct PairArg {
    pub mode: u8,
    pub sign: i8,
    pub lhs: u8,
    pub rhs: u8,
    pub trailing_zeros: bool,
}

fn sign_of(s: i8) -> Sign {
    match s {
        -1 => Sign::Minus,
        0 => Sign::NoSign,
        _ => Sign::Plus,
    }
}

pub fn check_pair(c: &PairArg) -> Verdict {
    let mode = ALL_MODES[c.mode as usize % 7];
    let got = rm(mode).round_pair(sign_of(c.sign), (c.lhs, c.rhs), c.trailing_zeros);
    let want = round_pair_spec(mode, c.sign as i32, c.lhs, c.rhs, c.trailing_zeros);
    let mut v = Verdict::pass(!(c.rhs == 0 && c.trailing_zeros));
    let open = c.sign == 0 && matches!(mode, bdoracle::Mode::Floor | bdoracle::Mode::Ceiling);
    if open {
        // a zero has no direction: only membership is specified
        let inexact = !(c.rhs == 0 && c.trailing_zeros);
        ensure!(v, got == c.lhs || (inexact && got == c.lhs + 1), "C06/round_pair", "round_pair({:?}) = {} not in {{lhs, lhs+1}}", c, got);
    } else {
        ensure!(v, got == want, "C06/round_pair", "round_pair({:?}) = {} expected {}", c, got, want);
    }
    v
}

#[derive(Clone, Debug, Hash, Serialize, Deserialize)]
pub struct U32Arg {
    pub mode: u8,
    pub negative: bool,
    pub at_digit: u8,
    pub value: u32,
    pub trailing_zeros: bool,
}

pub fn check_u32(c: &U32Arg) -> Verdict {
    let mode = ALL_MODES[c.mode as usize % 7];
    if !(1..=9).contains(&c.at_digit) {
        return Verdict::inconclusive("digit index outside 1..9");
    }
    // model: value (plus a non-zero tail beyond the value when !trailing_zeros) rounded to a multiple of 10^at_digit
    let signed = BigInt::from(c.value) * if c.negative { -1 } else { 1 };
    let (int, scale) = if c.trailing_zeros { (signed, 0i128) } else { (signed * 10 + if c.negative { -1 } else { 1 }, 1i128) };
    if c.value == 0 && c.trailing_zeros {
        // zero: nothing to round
    }
    let want = round_to_scale(&int, scale, -(c.at_digit as i128), mode);
    let want_mag = want.magnitude() * BigInt::from(10u8).pow(c.at_digit as u32).magnitude();
    use num_traits::ToPrimitive;
    let want_u32 = match want_mag.to_u32() {
        Some(w) => w,
        None => return Verdict::inconclusive("rounded result does not fit u32 (outside the function's precondition)"),
    };
    // the implementation multiplies (top - lhs + rounded) * 10^at_digit in u32: the intermediate must fit as well
    let sign = if c.value == 0 && c.trailing_zeros { Sign::NoSign } else if c.negative { Sign::Minus } else { Sign::Plus };
    if sign == Sign::NoSign {
        return Verdict::inconclusive("zero input (sign NoSign is open for directed modes)");
    }
    let got = rm(mode).round_u32(NonZeroU8::new(c.at_digit).unwrap(), sign, c.value, c.trailing_zeros);
    let discarded_nonzero = !c.trailing_zeros || c.value % 10u32.pow(c.at_digit as u32) != 0;
    let mut v = Verdict::pass(discarded_nonzero);
    ensure!(v, got == want_u32, "C06/round_u32", "round_u32({:?}) = {} expected {}", c, got, want_u32);
    v
}

#[derive(Clone, Debug, Hash, Serialize, Deserialize)]
pub struct RoundCase {
    pub d: D,
    pub new_scale: i64,
    pub mode: u8,
}

pub fn check_round(c: &RoundCase) -> Verdict {
    let mode = ALL_MODES[c.mode as usize % 7];
    let x = c.d.bd();
    let int = c.d.bigint();
    let want = round_to_scale(&int, c.d.scale as i128, c.new_scale as i128, mode);
    let got = x.with_scale_round(c.new_scale, rm(mode));
    let (gi, gs) = got.as_bigint_and_exponent();
    // non-trivial: digits discarded and the discarded part non-zero
    let discards = c.new_scale < c.d.scale && !c.d.is_zero() && {
        let k = (c.d.scale as i128 - c.new_scale as i128) as u128;
        let digits = c.d.int.trim_start_matches('-');
        k as usize >= digits.len() || digits[digits.len() - k as usize..].bytes().any(|b| b != b'0')
    };
    let mut v = Verdict::pass(discards);
    let nd = c.d.ndigits() as i128;
    let lead_scale = c.d.scale as i128 - nd; // target scale at which everything is discarded
    v.labels.push(if c.new_scale >= c.d.scale {
        "extend-or-same"
    } else if (c.new_scale as i128) < lead_scale {
        "target-left-of-leading-digit"
    } else if c.new_scale as i128 == lead_scale {
        "target-at-leading-digit"
    } else {
        "target-inside"
    });
    ensure!(v, gs == c.new_scale, "C06/scale", "with_scale_round({}, {}) returned scale {}", c.new_scale, mode.name(), gs);
    ensure!(v, gi == want, "C06/value", "with_scale_round({}e{}, scale {}, {}) = {} expected {}", c.d.int, -c.d.scale, c.new_scale, mode.name(), gi, want);
    // with_scale / to_owned_with_scale divide by 10^(discarded digits): only where that power is of moderate size
    let discarded = c.d.scale as i128 - c.new_scale as i128;
    if discarded > 20_000 {
        v.labels.push("target-far-left(>20000)");
    } else if discarded < -6 {
        v.labels.push("extension>6");
    }
    if mode == bdoracle::Mode::Down && discarded <= 20_000 {
        let t = x.with_scale(c.new_scale);
        let (ti, ts) = t.as_bigint_and_exponent();
        ensure!(v, ts == c.new_scale && ti == want, "C06/with_scale", "with_scale({}) = {}e{} expected {}e{}", c.new_scale, ti, -ts, want, -c.new_scale);
        let o = x.to_ref().to_owned_with_scale(c.new_scale);
        let (oi, os) = o.as_bigint_and_exponent();
        ensure!(v, os == c.new_scale && oi == want, "C06/to_owned_with_scale", "to_owned_with_scale({}) = {}e{} expected {}e{}", c.new_scale, oi, -os, want, -c.new_scale);
    }
    if mode == build_cfg().mode {
        let r = x.round(c.new_scale);
        let rd = dec_of(&r);
        ensure!(v, rd.scale == c.new_scale as i128 && rd.int == want, "C06/round", "round({}) = {} expected {}e{}", c.new_scale, rd.show(), want, -c.new_scale);
    }
    v
}

// ---------------------------------------------------------------- enumerations

fn small_total(limit: u64) -> u64 {
    // n in -(limit-1)..=(limit-1), scale -3..8, j in 0..13 (target offsets), 7 modes
    (2 * limit - 1) * 12 * 13 * 7
}

fn small_case(i: u64, limit: u64) -> Option<RoundCase> {
    let mut k = i;
    let mode = (k % 7) as u8;
    k /= 7;
    let j = (k % 13) as i64;
    k /= 13;
    let scale = (k % 12) as i64 - 3;
    k /= 12;
    let n = k as i64 - (limit as i64 - 1);
    let nd = if n == 0 { 1 } else { n.unsigned_abs().to_string().len() as i64 };
    // targets from 4 left of the leading digit to 4 right of the last: scale-nd-3 ..= scale+4  (nd+8 values)
    if j >= nd + 8 {
        return None;
    }
    let new_scale = scale - nd - 3 + j;
    Some(RoundCase { d: D::new(n.to_string(), scale), new_scale, mode })
}

fn u32_total() -> u64 {
    7 * 2 * 9 * 2 * 100_200
}

fn u32_case(i: u64) -> Option<U32Arg> {
    let mut k = i;
    let mode = (k % 7) as u8;
    k /= 7;
    let negative = k % 2 == 1;
    k /= 2;
    let at_digit = 1 + (k % 9) as u8;
    k /= 9;
    let trailing_zeros = k % 2 == 1;
    k /= 2;
    let value: u32 = if k < 100_000 {
        k as u32
    } else {
        // boundary values
        let b = k - 100_000;
        let base = [999_999_999u32, 1_000_000_000, 499_999_999, 500_000_000, 4_294_967_295, 4_199_999_999, 99_999_999, 949_999_999, 3_999_999_999, 1_234_567_890][(b % 10) as usize];
        base.wrapping_sub((b / 10) as u32 % 20)
    };
    Some(U32Arg { mode, negative, at_digit, value, trailing_zeros })
}

// ---------------------------------------------------------------- generators

/// tail-family shapes only
const TAIL_SHAPES: &[u8] = &[0, 1, 5, 6, 7, 8, 10, 2, 3, 4, 14, 14, 12, 13];

fn round_strategy(max_len: usize) -> BoxedStrategy<RoundCase> {
    (gen::digspec_shapes(max_len, TAIL_SHAPES), any::<bool>(), gen::scale_strategy(5000), 0..10u8, any::<u16>(), -6i64..=6, 0..7u8, 0..20u8)
        .prop_map(|(spec, neg, scale, where_, pos, off, mode, zero)| {
            let digits = if zero == 0 { "0".to_string() } else { gen::digits_of(&spec) };
            let nd = digits.len() as i64;
            // the tie families place their tail at spec.aux-derived cut: aim the target there half of the time
            let cut = gen::tail_cut(&spec) as i64;
            let new_scale = match where_ {
                0..=3 => scale - (nd - cut),             // right at the family's cut (keeps `cut` digits)
                4 => scale - nd,                         // at the leading digit
                5 => {
                    // left of the leading digit: by 1..7 positions, by 8..8000, or by a distance at a truncating-cast
                    // boundary (2^8, 2^16, 2^31, 2^32 +- a little), far beyond anything that could be materialised
                    let dist = match pos % 8 {
                        0..=3 => 1 + off.abs(),
                        4 | 5 => 8 + (pos / 8) as i64,
                        6 => [1i64 << 8, 1 << 16, 1 << 31, 1 << 32, 1 << 48][(pos / 8 % 5) as usize] + off,
                        _ => 1_000_000 + (pos as i64) * 977,
                    };
                    scale - nd - dist
                }
                6 => {
                    // extension: by 0..6, by 7..700, or across the power-of-ten algorithm switches at 20 and 590
                    let ext = match pos % 4 {
                        0 | 1 => off.abs(),
                        2 => 7 + (pos / 4 % 700) as i64,
                        _ => [19i64, 20, 21, 589, 590, 591, 1179, 1180][(pos / 4 % 8) as usize],
                    };
                    scale + ext
                }
                7 => scale - nd + 1,                     // keep one digit
                _ => scale - gen::pick_idx(pos, nd as usize + 1) as i64 + off.signum(), // anywhere inside
            };
            RoundCase { d: D::new(if neg && digits != "0" { format!("-{}", digits) } else { digits }, scale), new_scale, mode }
        })
        .boxed()
}

/// scales within 80 of the i64 ends, target scale within the digits (no overflow of the request itself)
fn extreme_scale_strategy() -> BoxedStrategy<RoundCase> {
    (gen::digspec_shapes(60, TAIL_SHAPES), any::<bool>(), any::<bool>(), 0i64..80, any::<u16>(), 0..7u8)
        .prop_map(|(spec, neg, high, off, pos, mode)| {
            let digits = gen::digits_of(&spec);
            let nd = digits.len() as i64;
            let scale = if high { i64::MAX - off } else { i64::MIN + off };
            // discard between 1 and nd+2 digits, as far as the i64 range allows
            let k = 1 + gen::pick_idx(pos, (nd + 2) as usize) as i64;
            let new_scale = if high { scale - k } else { scale - k.min(off) };
            RoundCase { d: D::new(if neg && digits != "0" { format!("-{}", digits) } else { digits }, scale), new_scale, mode }
        })
        .boxed()
}

pub fn run(ctx: &Ctx) {
    let t = ctx.tier;
    ctx.enumerated(
        "round_pair-all",
        "pair",
        4200,
        true,
        "EXHAUSTIVE: all 7 modes x 3 signs x 10 x 10 digit pairs x 2 tail flags (membership only for NoSign with Floor/Ceiling)",
        |i| {
            let mut k = i;
            let trailing_zeros = k % 2 == 1;
            k /= 2;
            let rhs = (k % 10) as u8;
            k /= 10;
            let lhs = (k % 10) as u8;
            k /= 10;
            let sign = (k % 3) as i8 - 1;
            k /= 3;
            Some(PairArg { mode: k as u8, sign, lhs, rhs, trailing_zeros })
        },
        check_pair,
    );
    ctx.enumerated(
        "round_u32",
        "u32",
        u32_total(),
        true,
        "EXHAUSTIVE over: 7 modes x 2 signs x digit index 1..9 x tail flag x (all values < 100000 + 200 boundary values near 10^9, 5*10^8, u32::MAX); arguments whose rounded result overflows u32 are outside the precondition and counted inconclusive",
        u32_case,
        check_u32,
    );
    let limit = match t {
        Tier::Quick => 10_000u64,
        Tier::Thorough => 400_000,
    };
    ctx.enumerated(
        "small-exhaustive",
        "round",
        small_total(limit),
        true,
        &format!("EXHAUSTIVE: every |n| < {} x scale -3..8 x every target scale from 4 left of the leading digit to 4 right of the last x 7 modes", limit),
        move |i| small_case(i, limit),
        check_round,
    );
    let max_k = t.pick(3000u64, 6000);
    ctx.enumerated(
        "discard-count-sweep",
        "round",
        max_k * 7 * 2,
        true,
        &format!("EXHAUSTIVE: a {}-digit value, every number of discarded digits 1..={} x 7 modes x both signs (and every extension 1..={} through C18)", max_k + 40, max_k, max_k),
        move |i| {
            let k = 1 + (i % max_k) as i64;
            let mode = ((i / max_k) % 7) as u8;
            let neg = i / (max_k * 7) == 1;
            // digits: pseudo-random, fixed per sign
            let digits = gen::digits_of(&gen::DigSpec { shape: 0, len: max_k as usize + 40, head: vec![], seed: 0x5eed + neg as u64, aux: 0 });
            Some(RoundCase { d: D::new(if neg { format!("-{}", digits) } else { digits }, 17), new_scale: 17 - k, mode })
        },
        check_round,
    );
    {
        // values next to a power of ten, rounded so that only the leading digit (or nothing) survives: digit-count
        // estimates derived from the bit length are at their weakest right above 10^k
        let max_k = t.pick(3000u64, 6000);
        ctx.enumerated(
            "powers-of-ten-keep-leading",
            "round",
            (max_k + 1) * 4 * 3 * 7,
            true,
            &format!("EXHAUSTIVE: 10^k, 10^k+1, 2*10^k-1, 10^k-1 for every k 0..={} x target keeping one digit / none / two x 7 modes (sign alternates)", max_k),
            move |i| {
                let mut j = i;
                let mode = (j % 7) as u8;
                j /= 7;
                let keep = (j % 3) as i64; // digits kept: 1, 0, 2
                j /= 3;
                let form = j % 4;
                let k = (j / 4) as usize;
                let digits = match form {
                    0 => format!("1{}", "0".repeat(k)),
                    1 => {
                        if k == 0 {
                            "2".to_string()
                        } else {
                            format!("1{}1", "0".repeat(k - 1))
                        }
                    }
                    2 => format!("1{}", "9".repeat(k)),
                    _ => {
                        if k == 0 {
                            "9".to_string()
                        } else {
                            "9".repeat(k)
                        }
                    }
                };
                let nd = digits.len() as i64;
                let scale = [0i64, 7, -3][(k % 3) as usize];
                let keep = [1i64, 0, 2][keep as usize];
                let neg = (i / 7) % 2 == 1;
                Some(RoundCase { d: D::new(if neg { format!("-{}", digits) } else { digits }, scale), new_scale: scale - nd + keep, mode })
            },
            check_round,
        );
    }
    let max_len = t.pick(600usize, 3000);
    ctx.generated(
        "random-tails",
        "round",
        t.pick(800_000, 10_000_000),
        "1..max digits; tails: tie 50..0, near-tie 49..9x / 50..01, all nines, dense nines, sparse; targets at the tail cut, at / left of the leading digit (by 1..7, 8..8000, 2^8..2^48, 10^6..), extension (0..6, 7..700, 19..21, 589..591, 1179/1180), anywhere; zeros; both signs; 7 modes",
        move || round_strategy(max_len),
        check_round,
    );
    ctx.generated("extreme-scales", "round", t.pick(50_000, 500_000), "scales within 80 of i64::MIN / i64::MAX, 1..digits+2 digits discarded", extreme_scale_strategy, check_round);
}
