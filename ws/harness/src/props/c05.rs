//! C05 — parsing yields exactly the denoted number, rejects all else, never panics.

use crate::engine::{Ctx, Verdict};
use crate::ensure;
use crate::gen::{self, SplitMix};
use bdoracle::numeral::parse_reference;
use bigdecimal::{BigDecimal, Num};
use proptest::prelude::*;
use serde::{Deserialize, Serialize};
use std::str::FromStr;

pub const RULE: &str = "case = a byte string (plus a radix != 10 to try); accepted <=> the reference recogniser accepts, and then (unscaled integer, scale) are identical; from_str, str::parse, Num::from_str_radix(.,10) and parse_bytes(.,10) must agree; non-trivial = the text contains a digit and a non-digit; distinct = the byte string";
pub const EXPLANATION: &str = "The reference recogniser/evaluator (bdoracle::numeral) is a hand-written scanner over bytes with an arbitrary-precision exponent; it shares no code with the library parser. The enumerated stage visits EVERY string up to the tier's length over the alphabet {0,1,7,+,-,.,e,E,_,x,space}; generated stages draw numerals from the grammar (digits to 4000, underscores, exponents around +-2^63 and 40-digit exponents) and apply byte-level mutations (signs, points, underscores, NUL, non-ASCII digits, invalid UTF-8). Both build flavours; a panic is a violation.";

#[derive(Clone, Debug, Hash, Serialize, Deserialize)]
pub struct Text {
    /// in replay files: a string whose chars U+0000..U+00FF stand for the bytes one to one
    #[serde(with = "crate::gen::latin1")]
    pub bytes: Vec<u8>,
    pub radix: u32,
}

fn show(b: &[u8]) -> String {
    crate::engine::truncate(&format!("{:?}", String::from_utf8_lossy(b)), 200)
}

pub fn check_text(c: &Text) -> Verdict {
    let b = &c.bytes;
    let has_digit = b.iter().any(|x| x.is_ascii_digit());
    let has_other = b.iter().any(|x| !x.is_ascii_digit());
    let mut v = Verdict::pass(has_digit && has_other);
    let want = parse_reference(b);
    v.labels.push(if want.is_some() { "numeral" } else { "not-a-numeral" });
    // parse_bytes works on any byte slice
    let pb = BigDecimal::parse_bytes(b, 10);
    let got_pb = pb.as_ref().map(|x| x.as_bigint_and_exponent());
    match (&got_pb, &want) {
        (Some(g), Some(w)) => {
            ensure!(v, g == w, "C05/wrong-value", "parse_bytes({}) = ({}, scale {}) but the text denotes ({}, scale {})", show(b), g.0, g.1, w.0, w.1)
        }
        (Some(g), None) => {
            ensure!(v, false, "C05/accepts-non-numeral", "parse_bytes accepts {} as ({}, scale {})", show(b), g.0, g.1)
        }
        (None, Some(w)) => ensure!(v, false, "C05/rejects-numeral", "parse_bytes rejects {} which denotes ({}, scale {})", show(b), w.0, w.1),
        (None, None) => {}
    }
    // the string entry points, when the bytes are UTF-8
    if let Ok(s) = std::str::from_utf8(b) {
        let r1 = BigDecimal::from_str(s).ok().map(|x| x.as_bigint_and_exponent());
        let r2 = s.parse::<BigDecimal>().ok().map(|x| x.as_bigint_and_exponent());
        let r3 = <BigDecimal as Num>::from_str_radix(s, 10).ok().map(|x| x.as_bigint_and_exponent());
        ensure!(v, r1 == got_pb && r2 == got_pb && r3 == got_pb, "C05/entry-points-disagree", "on {}: from_str {:?}, parse {:?}, from_str_radix {:?}, parse_bytes {:?}", show(b), r1, r2, r3, got_pb);
        if c.radix != 10 {
            let r = <BigDecimal as Num>::from_str_radix(s, c.radix);
            ensure!(v, r.is_err(), "C05/radix-accepted", "from_str_radix({}, {}) returned Ok", show(b), c.radix);
        }
    } else {
        v.labels.push("invalid-utf8");
        ensure!(v, pb.is_none(), "C05/accepts-non-utf8", "parse_bytes accepts invalid UTF-8 {}", show(b));
    }
    if c.radix != 10 {
        ensure!(v, BigDecimal::parse_bytes(b, c.radix).is_none(), "C05/radix-accepted", "parse_bytes({}, {}) returned Some", show(b), c.radix);
    }
    v
}

pub const ALPHABET: &[u8; 11] = b"017+-.eE_x ";

/// number of strings of length <= n over the alphabet
pub fn count_upto(n: u32) -> u64 {
    (0..=n).map(|k| 11u64.pow(k)).sum()
}

/// i-th string in length-then-lexicographic order
pub fn nth_string(mut i: u64) -> Vec<u8> {
    let mut len = 0u32;
    loop {
        let c = 11u64.pow(len);
        if i < c {
            break;
        }
        i -= c;
        len += 1;
    }
    let mut out = vec![0u8; len as usize];
    for k in (0..len as usize).rev() {
        out[k] = ALPHABET[(i % 11) as usize];
        i /= 11;
    }
    out
}

// ---------------------------------------------------------------- grammar generator

#[derive(Clone, Debug)]
struct NumSpec {
    sign: u8,
    int_len: usize,
    frac: Option<usize>,
    seed: u64,
    underscores: u8,
    exp: u8,
    exp_delta: i64,
    exp_sign_plus: bool,
    upper_e: bool,
}

fn digits_with_underscores(len: usize, rng: &mut SplitMix, density: u8, allow_leading: bool) -> String {
    let mut s = String::with_capacity(len + len / 3);
    for i in 0..len {
        s.push((b'0' + rng.below(10) as u8) as char);
        if density > 0 && (i + 1 < len || allow_leading) && rng.below(12) < density as u64 {
            s.push('_');
            if rng.below(5) == 0 {
                s.push('_');
            }
        }
    }
    s
}

fn render(spec: &NumSpec) -> String {
    let mut rng = SplitMix(spec.seed);
    let mut s = String::new();
    match spec.sign % 3 {
        1 => s.push('+'),
        2 => s.push('-'),
        _ => {}
    }
    let int_len = spec.int_len;
    let frac = spec.frac;
    // at least one digit overall
    let int_len = if int_len == 0 && frac.map(|f| f == 0).unwrap_or(true) { 1 } else { int_len };
    s.push_str(&digits_with_underscores(int_len, &mut rng, spec.underscores, spec.seed & 1 == 1));
    let mut frac_digits = 0i128;
    if let Some(f) = frac {
        s.push('.');
        // an underscore is only ever emitted after a digit of the same run (also after the last one), so the fraction
        // may carry them whether or not an integer digit came first (".5_5", "1.5_")
        let d = digits_with_underscores(f, &mut rng, spec.underscores, spec.seed & 2 == 2);
        frac_digits = d.bytes().filter(|b| b.is_ascii_digit()).count() as i128;
        s.push_str(&d);
    }
    let e = if spec.upper_e { 'E' } else { 'e' };
    let plus = if spec.exp_sign_plus { "+" } else { "" };
    match spec.exp % 8 {
        0 => {}
        1 => {
            // small exponent
            let x = spec.exp_delta % 400;
            s.push_str(&format!("{}{}{}", e, if x >= 0 { plus } else { "" }, x));
        }
        2 => {
            // scale = frac - exp lands around i64::MAX: exp = frac - (i64::MAX + d)
            let x = frac_digits - (i64::MAX as i128 + (spec.exp_delta % 4) as i128);
            s.push_str(&format!("{}{}", e, x));
        }
        3 => {
            // scale lands around i64::MIN
            let x = frac_digits - (i64::MIN as i128 + (spec.exp_delta % 4) as i128);
            s.push_str(&format!("{}{}{}", e, plus, x));
        }
        4 => {
            // exponent itself around +-2^63 regardless of the fraction
            let x = (1i128 << 63) + (spec.exp_delta % 4) as i128;
            let x = if spec.exp_delta & 64 != 0 { -x } else { x };
            s.push_str(&format!("{}{}", e, x));
        }
        5 => {
            // 40-digit exponent
            let mut d = String::new();
            for i in 0..40 {
                d.push((b'0' + if i == 0 { 1 + rng.below(9) } else { rng.below(10) } as u8) as char);
            }
            s.push_str(&format!("{}{}{}", e, if spec.exp_delta & 1 == 0 { "-" } else { plus }, d));
        }
        6 => {
            // leading zeros (long, still a small value)
            let x = (spec.exp_delta % 50).abs();
            // zero padding of 0..300 characters (an exponent field of any length is a numeral)
            let pad = (spec.exp_delta.unsigned_abs() / 64 % 301) as usize;
            s.push_str(&format!("{}{}{}{}", e, if spec.exp_delta < 0 { "-" } else { plus }, "0".repeat(pad), x));
        }
        _ => {
            // moderate exponents, and exponents at truncating-cast boundaries +-(2^k + d)
            let x = if spec.exp_delta & 1 == 0 {
                spec.exp_delta % 20_000
            } else {
                let k = [8u32, 16, 31, 32, 33, 48][(spec.exp_delta.unsigned_abs() / 2 % 6) as usize];
                let v = (1i64 << k) + (spec.exp_delta / 16 % 24);
                if spec.exp_delta < 0 { -v } else { v }
            };
            s.push_str(&format!("{}{}", e, x));
        }
    }
    s
}

fn numspec(max_digits: usize) -> BoxedStrategy<NumSpec> {
    (
        0..3u8,
        prop_oneof![3 => 0usize..6, 3 => gen::len_strategy(max_digits)],
        prop_oneof![2 => Just(None), 3 => (0usize..8).prop_map(Some), 1 => gen::len_strategy(max_digits).prop_map(Some)],
        any::<u64>(),
        prop_oneof![3 => Just(0u8), 2 => 1u8..6],
        0..8u8,
        any::<i64>(),
        any::<bool>(),
        any::<bool>(),
    )
        .prop_map(|(sign, int_len, frac, seed, underscores, exp, exp_delta, exp_sign_plus, upper_e)| NumSpec { sign, int_len, frac, seed, underscores, exp, exp_delta, exp_sign_plus, upper_e })
        .boxed()
}

/// radices: 0..40 and values that alias 10 under a truncating cast (10 + 2^8, 10 + 2^16, 2^32 - 6 as i8 = -6, ...)
fn radix_strategy() -> BoxedStrategy<u32> {
    prop_oneof![12 => 0u32..=40, 1 => Just(266u32), 1 => Just(65_546u32), 1 => Just(16_777_226u32), 1 => Just(u32::MAX - 5), 1 => Just(u32::MAX), 1 => Just(1u32 << 31)].boxed()
}

fn numeral_strategy(max_digits: usize) -> BoxedStrategy<Text> {
    (numspec(max_digits), radix_strategy()).prop_map(|(spec, radix)| Text { bytes: render(&spec).into_bytes(), radix }).boxed()
}

const MUT_TOKENS: &[&[u8]] = &[
    b"+", b"-", b".", b"_", b"e", b"E", b" ", b"\0", b"x", b"0", b"9", b"5", "\u{663}".as_bytes(), "\u{ff15}".as_bytes(), b"\xff", b"\xc3", b"\t", b"\n",
    b"e-", b"E+", b"__", b"..", b"+-", b"inf", b"NaN", "\u{2212}".as_bytes(), b",",
];

fn mutated_strategy(max_digits: usize) -> BoxedStrategy<Text> {
    (numspec(max_digits), proptest::collection::vec((any::<u16>(), 0..MUT_TOKENS.len(), 0..3u8), 1..3), radix_strategy())
        .prop_map(|(spec, muts, radix)| {
            let mut b = render(&spec).into_bytes();
            for (pos, tok, how) in muts {
                let p = gen::pick_idx(pos, b.len() + 1);
                let t = MUT_TOKENS[tok];
                match how {
                    0 => {
                        // insert
                        let tail = b.split_off(p);
                        b.extend_from_slice(t);
                        b.extend_from_slice(&tail);
                    }
                    1 => {
                        // replace one byte
                        if p < b.len() {
                            let tail = b.split_off(p + 1);
                            b.pop();
                            b.extend_from_slice(t);
                            b.extend_from_slice(&tail);
                        } else {
                            b.extend_from_slice(t);
                        }
                    }
                    _ => {
                        // delete one byte
                        if p < b.len() {
                            b.remove(p);
                        }
                    }
                }
            }
            Text { bytes: b, radix }
        })
        .boxed()
}

/// short strings over a wider alphabet (random, not exhaustive)
fn soup_strategy() -> BoxedStrategy<Text> {
    let alpha: &'static [u8] = b"0123456789+-._eE xX\0,'\"abcdfnNiIaA\xff\xd9\xa3";
    (proptest::collection::vec(0..alpha.len(), 0..14), 0u32..=40).prop_map(move |(ix, radix)| Text { bytes: ix.into_iter().map(|i| alpha[i]).collect(), radix }).boxed()
}

pub fn run(ctx: &Ctx) {
    let t = ctx.tier;
    // the checked build is about half as fast: one length less there
    let n = match (t, ctx.flavour) {
        (crate::engine::Tier::Quick, "rel") => 8u32,
        (crate::engine::Tier::Quick, _) => 7,
        (_, "rel") => 9,
        _ => 8,
    };
    let total = count_upto(n);
    ctx.enumerated(
        "all-short-strings",
        "text",
        total,
        true,
        &format!("EXHAUSTIVE: every string of length <= {} over the alphabet {{0,1,7,+,-,.,e,E,_,x,space}} ({} strings)", n, total),
        |i| Some(Text { bytes: nth_string(i), radix: [2u32, 16, 36, 0, 11, 9][(i % 6) as usize] }),
        check_text,
    );
    {
        // plain integers and short decimals whose digits sit at machine-word boundaries (a parser may take a fast
        // path through i32 / i64 / u64 / i128 / u128): 2^k and 10^k -3..+3 for every k, with and without sign,
        // point position and exponent
        let mut cases = Vec::new();
        let mut bases: Vec<num_bigint::BigInt> = Vec::new();
        for k in [15usize, 16, 31, 32, 53, 63, 64, 127, 128, 255, 256] {
            bases.push(num_bigint::BigInt::from(1) << k);
        }
        for k in [9u32, 10, 18, 19, 20, 38, 39] {
            bases.push(num_bigint::BigInt::from(10u8).pow(k));
        }
        // anywhere between 2^63 and 10^19, 2^64 and 10^20, 2^127 and 10^39 (same digit count as the type's maximum)
        for (lo, hi) in [(63usize, 19u32), (64, 20), (127, 39), (128, 39), (31, 10), (32, 10)] {
            let l = num_bigint::BigInt::from(1) << lo;
            let h = num_bigint::BigInt::from(10u8).pow(hi);
            for j in 1..8 {
                bases.push(&l + (&h - &l) * j / 8);
            }
        }
        for b in &bases {
            for d in -3i64..=3 {
                let v = b + d;
                let digits = v.to_string();
                for form in 0..7 {
                    let text = match form {
                        0 => digits.clone(),
                        1 => format!("-{}", digits),
                        2 => format!("+{}", digits),
                        3 => format!("{}.", digits),
                        4 => format!("{}e0", digits),
                        5 => format!("{}.{}", &digits[..digits.len() / 2], &digits[digits.len() / 2..]),
                        _ => format!("-{}.{}e-3", &digits[..1], &digits[1..]),
                    };
                    cases.push(Text { bytes: text.into_bytes(), radix: 10 });
                }
            }
        }
        ctx.listed("machine-word-integers", "text", "2^k (k = 15..256) and 10^k (k = 9..39) -3..+3, and values between 2^63 and 10^19 (etc.), written plain, signed, with a point, with an exponent: all entry points must accept them digit for digit", cases, check_text);
    }
    {
        // every single-byte substitution (all 256 values) at every position of a few short numerals: a digit test written
        // with a mask or a range accepts bytes next to '0'..'9' that no alphabet of "interesting" characters contains
        let bases: [&[u8]; 6] = [b"12345", b"1.5", b"-7e3", b"0", b"9_9", b"+.5E-2"];
        let mut cases = Vec::new();
        for b in bases {
            for pos in 0..b.len() {
                for v in 0..=255u8 {
                    let mut t = b.to_vec();
                    t[pos] = v;
                    cases.push(Text { bytes: t, radix: 10 });
                }
            }
            for pos in 0..=b.len() {
                for v in 0..=255u8 {
                    let mut t = b.to_vec();
                    t.insert(pos, v);
                    cases.push(Text { bytes: t, radix: 10 });
                }
            }
        }
        ctx.listed("all-byte-substitutions", "text", "6 short numerals x every position x every byte value 0..255 substituted or inserted (about 13 000 strings)", cases, check_text);
    }
    let max_digits = t.pick(1000usize, 4000);
    let cases = t.pick(300_000u64, 2_000_000);
    ctx.generated("grammar-numerals", "text", cases, "numerals from the grammar: digits to the tier limit, underscores, optional point, exponent families (small, scale around i64::MAX/MIN, +-2^63, 40-digit, leading zeros)", move || numeral_strategy(max_digits), check_text);
    ctx.generated("mutated-numerals", "text", cases, "1-2 byte-level mutations (insert / replace / delete) of a valid numeral with signs, points, underscores, NUL, Arabic-Indic and full-width digits, invalid UTF-8", move || mutated_strategy(max_digits.min(200)), check_text);
    ctx.generated("soup", "text", cases, "random strings of length 0..13 over a wider alphabet", soup_strategy, check_text);
}
