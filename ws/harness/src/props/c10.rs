//! C10 — square root is the true root rounded as the context dictates.
//! (shared root-case generators are used by C11 as well)

use crate::conv::{build_cfg, dec_of, rm};
use crate::engine::{Ctx, Verdict};
use crate::ensure;
use crate::gen::{self, D};
use bdoracle::root::root_rounded;
use bdoracle::round::{Tail, ALL_MODES};
use bdoracle::Mode;
use bigdecimal::{BigDecimal, Context};
use num_bigint::{BigInt, BigUint};
use proptest::prelude::*;
use serde::{Deserialize, Serialize};
use std::num::NonZeroU64;

pub const RULE: &str = "case = (decimal x, precision p, mode m); sqrt_with_context (value form, default-context form when (p, m) is the configured default, and the three reference forms) must equal the true root rounded to p digits under m, decided by integer inequalities; negative -> None / |x| / copied sign; zero -> zero; non-trivial = the root is not representable in p digits; distinct = structural hash";
pub const EXPLANATION: &str = "Oracle: floor integer root of x*10^(2t) (verified s^2 <= N < (s+1)^2), exactness flag, midpoint test (2s+1)^2*den vs 4*num, then the mode table. Generators: 1..2000 digits, scales of both parities in +-2000, inputs with more than 2(p+5) digits, perfect squares, perfect squares +-1 in a far digit, exact ties (r.5)^2 and neighbours, roots with 5000..0x / 4999..9x tails after the p-th digit, p in 1..150.";

#[derive(Clone, Debug, Hash, Serialize, Deserialize)]
pub struct RootCase {
    pub d: D,
    pub p: u64,
    pub mode: u8,
}

pub fn tail_label(t: Tail) -> &'static str {
    match t {
        Tail::Zero => "root-exact",
        Tail::BelowHalf => "tail-below-half",
        Tail::Half => "tail-exact-tie",
        Tail::AboveHalf => "tail-above-half",
    }
}

pub fn check_sqrt(c: &RootCase) -> Verdict {
    if c.p == 0 {
        return Verdict::inconclusive("p = 0");
    }
    let mode = ALL_MODES[c.mode as usize % 7];
    let ctx = Context::new(NonZeroU64::new(c.p).unwrap(), rm(mode));
    let x = c.d.bd();
    let int = c.d.bigint();
    let r = x.to_ref();
    if c.d.is_zero() {
        let mut v = Verdict::pass(false).label("zero");
        let s = x.sqrt_with_context(&ctx);
        ensure!(v, s.as_ref().map(|s| dec_of(s).is_zero()) == Some(true), "C10/zero", "sqrt(0) = {:?}", s.as_ref().map(D::of));
        ensure!(v, r.sqrt_with_context(&ctx).map(|s| dec_of(&s).is_zero()) == Some(true), "C10/zero-ref", "ref sqrt(0) is not zero");
        ensure!(v, dec_of(&r.sqrt_abs_with_context(&ctx)).is_zero(), "C10/zero-ref-abs", "ref sqrt_abs(0) is not zero");
        ensure!(v, dec_of(&r.sqrt_copysign_with_context(&ctx)).is_zero(), "C10/zero-ref-copysign", "ref sqrt_copysign(0) is not zero");
        ensure!(v, x.sqrt().map(|s| dec_of(&s).is_zero()) == Some(true), "C10/zero-default", "sqrt() of zero is not zero");
        return v;
    }
    let mag: BigUint = int.magnitude().clone();
    let info = root_rounded(&mag, c.d.scale as i128, 2, c.p, mode, false);
    let want = &info.value;
    let mut v = Verdict::pass(!info.exact).label(tail_label(info.tail));
    let nd = c.d.ndigits() as u64;
    if nd > 2 * (c.p + 5) {
        v.labels.push("digits>2(p+5)");
    }
    v.labels.push(if (c.d.scale.rem_euclid(2)) == 0 { "scale-even" } else { "scale-odd" });
    let abs_root = r.sqrt_abs_with_context(&ctx);
    let cs_root = r.sqrt_copysign_with_context(&ctx);
    if c.d.is_neg() {
        v.labels.push("negative");
        ensure!(v, x.sqrt_with_context(&ctx).is_none(), "C10/negative-not-none", "sqrt of a negative value returned Some");
        ensure!(v, r.sqrt_with_context(&ctx).is_none(), "C10/negative-not-none-ref", "ref sqrt of a negative value returned Some");
        ensure!(v, x.sqrt().is_none(), "C10/negative-not-none-default", "sqrt() of a negative value returned Some");
        ensure!(v, dec_of(&abs_root).eq_val(want), "C10/value:sqrt_abs", "sqrt_abs_with_context = {} expected {}", dec_of(&abs_root).show(), want.show());
        ensure!(v, dec_of(&cs_root).eq_val(&want.neg()), "C10/value:sqrt_copysign", "sqrt_copysign_with_context = {} expected {}", dec_of(&cs_root).show(), want.neg().show());
        return v;
    }
    let results: Vec<(&str, Option<BigDecimal>)> = vec![
        ("sqrt_with_context", x.sqrt_with_context(&ctx)),
        ("ref.sqrt_with_context", r.sqrt_with_context(&ctx)),
        ("ref.sqrt_abs_with_context", Some(abs_root)),
        ("ref.sqrt_copysign_with_context", Some(cs_root)),
    ];
    for (what, got) in results {
        match got {
            None => ensure!(v, false, format!("C10/none:{}", what), "{} returned None for a non-negative input", what),
            Some(g) => {
                let g = dec_of(&g);
                ensure!(v, g.eq_val(want), format!("C10/value:{}", what), "{}(p={}, {}) = {} expected {} [{}]", what, c.p, mode.name(), g.show(), want.show(), tail_label(info.tail));
            }
        }
    }
    let cfg = build_cfg();
    if c.p == cfg.precision && mode == cfg.mode {
        v.labels.push("default-context");
        let g = x.sqrt().map(|g| dec_of(&g));
        ensure!(v, g.as_ref().map(|g| g.eq_val(want)) == Some(true), "C10/value:sqrt-default", "sqrt() = {:?} expected {}", g.map(|g| g.show()), want.show());
    }
    v
}

// ---------------------------------------------------------------- generators (shared with C11)

/// precision: small, around 100, up to pmax
pub fn p_strategy(pmax: u64) -> BoxedStrategy<u64> {
    prop_oneof![
        4 => 1u64..=12,
        3 => 1u64..=pmax,
        2 => Just(100u64),
        1 => 95u64..=105,
        1 => prop_oneof![14u64..=21, 35u64..=40],
    ]
    .boxed()
}

/// random inputs, any length/scale
pub fn free_strategy(max_len: usize, pmax: u64, neg_one_in: u8) -> BoxedStrategy<RootCase> {
    (gen::udigits(max_len), -2000i64..=2000, p_strategy(pmax), 0..7u8, 0..30u8, 0..16u8)
        .prop_map(move |(digits, scale, p, mode, zero, neg)| {
            let int = if zero == 0 { "0".to_string() } else { digits };
            let int = if neg_one_in > 0 && neg % neg_one_in == 0 && int != "0" { format!("-{}", int) } else { int };
            RootCase { d: D::new(int, scale), p, mode }
        })
        .boxed()
}

/// long inputs with small p (more than k(p+5) digits)
pub fn long_input_strategy(max_len: usize, allow_neg: bool) -> BoxedStrategy<RootCase> {
    (gen::udigits(max_len), -300i64..=300, 1u64..=20, 0..7u8, any::<bool>(), 40usize..400)
        .prop_map(move |(digits, scale, p, mode, neg, pad)| {
            // make sure the input is long: append random-looking digits derived from itself
            let mut s = digits.clone();
            if s == "0" {
                s = "3".into();
            }
            while s.len() < pad {
                s = format!("{}{}", s, digits);
            }
            let int = if allow_neg && neg { format!("-{}", s) } else { s };
            RootCase { d: D::new(int, scale), p, mode }
        })
        .boxed()
}

/// inputs constructed from a root R: R^k exactly, R^k +- 1 in a far digit; R chosen so that its
/// digits after the p-th are a tie (5), 5000..0x, 4999..9x, zeros or nines
pub fn constructed_strategy(k: u32, pmax: u64, allow_neg: bool) -> BoxedStrategy<RootCase> {
    (gen::udigits(160), 1u64..=pmax, 0..8u8, 0usize..40, 0..5u8, 0u32..60, -700i64..=700, 0..7u8, any::<bool>(), 0u32..10)
        .prop_map(move |(head, p, family, run, perturb, far, s, mode, neg, last)| {
            // head: exactly p digits
            let mut h = head.clone();
            if h == "0" {
                h = "7".into();
            }
            while (h.len() as u64) < p {
                h = format!("{}{}", h, head);
            }
            let h = &h[..p as usize];
            // tail after the p-th digit
            let x = (1 + last % 9).to_string();
            let tail = match family {
                0 => String::new(),                                     // exactly representable in p digits
                1 => "5".to_string(),                                   // exact tie
                2 => format!("5{}{}", "0".repeat(run), x),              // just above the tie
                3 => format!("4{}{}", "9".repeat(run), x),              // just below the tie
                4 => format!("{}{}", "0".repeat(run + 1), x),           // just above a representable value
                5 => format!("{}{}", "9".repeat(run + 1), x),           // just below a representable value
                6 => "5".to_string() + &"0".repeat(run),                // tie written with zeros
                _ => format!("{}{}", (last % 10), x),
            };
            let r: BigUint = format!("{}{}", h, tail).parse().unwrap();
            let mut n: BigUint = r.pow(k);
            let mut shift = 0u32;
            match perturb {
                1 => {
                    // + 1 unit in a far-away digit
                    n = n * BigUint::from(10u8).pow(k * far) + 1u8;
                    shift = k * far;
                }
                2 => {
                    n = n * BigUint::from(10u8).pow(k * far) - 1u8;
                    shift = k * far;
                }
                3 | 4 => {
                    // perturbation that is a multiple of a limb-structured modulus: invisible to
                    // checks that look at low bits / limbs or work modulo 2^64 - 1
                    let far = far.max(14);
                    let c = BigUint::from(1 + last % 9);
                    let m = match (far + last) % 7 {
                        0 => (BigUint::from(1u8) << 64) - 1u8,
                        1 => BigUint::from(1u8) << 64,
                        2 => BigUint::from(1u8) << 96,
                        3 => BigUint::from(1u8) << 120,
                        4 => BigUint::from(1u8) << 128,
                        5 => (BigUint::from(1u8) << 32) - 1u8,
                        _ => BigUint::from(1u8) << 192,
                    };
                    let big = n * BigUint::from(10u8).pow(k * far.max(20) * 2);
                    n = if perturb == 3 { big + c * m } else { big - c * m };
                    shift = k * far.max(20) * 2;
                }
                _ => {}
            }
            // scale: k*s keeps the root's digits aligned to R; also try scales of every residue
            let scale = (k as i64) * s + shift as i64 + if family == 7 { (last % k) as i64 } else { 0 };
            // value-preserving re-representation: z trailing zeros, scale + z (exact roots written
            // with a scale of every residue mod k)
            let z = (last as usize / 3) % 4;
            let (n_str, scale) = if z > 0 && perturb != 2 && perturb != 4 { (format!("{}{}", n, "0".repeat(z)), scale + z as i64) } else { (n.to_string(), scale) };
            let int = if allow_neg && neg { format!("-{}", n_str) } else { n_str };
            RootCase { d: D::new(int, scale), p, mode }
        })
        .boxed()
}

/// exact roots at a precision larger than they need: x = R^k with R of 1..60 digits and no trailing zero,
/// p = digits(R) + 0..130 (and 100, 150, 160), any scale residue through value-preserving re-representation,
/// and the same root +-1 unit far away (the result then needs all p digits: 0.00..0x / 9.99..9x tails)
pub fn exact_large_p_strategy(k: u32, allow_neg: bool) -> BoxedStrategy<RootCase> {
    (gen::udigits(60), prop_oneof![3 => 0u64..=130, 1 => Just(1000u64), 1 => Just(1001u64), 1 => Just(1002u64)], -300i64..=300, 0usize..6, 0..7u8, any::<bool>(), 0..4u8, 1u32..40)
        .prop_map(move |(root, extra, s, z, mode, neg, perturb, far)| {
            let root = root.trim_end_matches('0').to_string();
            let root = if root.is_empty() { "7".to_string() } else { root };
            let r: BigUint = root.parse().unwrap();
            let p = match extra {
                1000 => 100,
                1001 => 150,
                1002 => 160,
                e => root.len() as u64 + e,
            };
            let mut n = r.pow(k);
            let mut scale = k as i64 * s;
            match perturb {
                1 => {
                    n = n * BigUint::from(10u8).pow(k * far) + 1u8;
                    scale += (k * far) as i64;
                }
                2 => {
                    n = n * BigUint::from(10u8).pow(k * far) - 1u8;
                    scale += (k * far) as i64;
                }
                _ => {}
            }
            let (digits, scale) = if perturb == 2 { (n.to_string(), scale) } else { (format!("{}{}", n, "0".repeat(z)), scale + z as i64) };
            RootCase { d: D::new(if allow_neg && neg { format!("-{}", digits) } else { digits }, scale), p, mode }
        })
        .boxed()
}

/// machine-word sized inputs a few units below / above an exact power: x = R^k * 10^(k*far) -+ d with R of 1..6 digits,
/// far chosen so that x has 12..40 digits (fits u64 / u128 / just not), small p: a root taken in floating point or in a
/// word-sized fast path is one too high exactly here
pub fn word_sized_strategy(k: u32, allow_neg: bool) -> BoxedStrategy<RootCase> {
    (1u64..=999_999, 0u32..12, 1u8..=3, any::<bool>(), 0..3u8, -30i64..=30, 0..7u8, any::<bool>())
        .prop_map(move |(r, far, d, below, pkind, s, mode, neg)| {
            let rd = r.to_string().len() as u64;
            let mut n = BigUint::from(r).pow(k);
            // stretch to 12..40 digits
            let have = n.to_string().len() as u32;
            let far = far.max((12u32.saturating_sub(have) + k - 1) / k).min((40 - have.min(40)) / k);
            n = n * BigUint::from(10u8).pow(k * far);
            let n = if below { n - BigUint::from(d) } else { n + BigUint::from(d) };
            let p = match pkind {
                0 => rd,
                1 => rd + far as u64,
                _ => (rd + far as u64).saturating_sub(1).max(1),
            };
            let digits = n.to_string();
            RootCase { d: D::new(if allow_neg && neg { format!("-{}", digits) } else { digits }, k as i64 * s), p, mode }
        })
        .boxed()
}

pub fn small_grid(i: u64, limit: u64, allow_neg: bool) -> Option<RootCase> {
    // n in 0..limit, scale -3..3, p 1..6, 7 modes, sign
    let mut k = i;
    let mode = (k % 7) as u8;
    k /= 7;
    let p = 1 + k % 6;
    k /= 6;
    let scale = (k % 7) as i64 - 3;
    k /= 7;
    let neg = allow_neg && k % 2 == 1;
    if allow_neg {
        k /= 2;
    }
    if k >= limit {
        return None;
    }
    Some(RootCase { d: D::new(if neg && k != 0 { format!("-{}", k) } else { k.to_string() }, scale), p, mode })
}

pub fn run(ctx: &Ctx) {
    let t = ctx.tier;
    let limit = t.pick(10_000u64, 200_000);
    ctx.enumerated(
        "small-exhaustive",
        "sqrt",
        limit * 7 * 6 * 7,
        true,
        &format!("EXHAUSTIVE: every n < {} x scale -3..3 x p 1..6 x 7 modes", limit),
        move |i| small_grid(i, limit, false),
        check_sqrt,
    );
    let max_len = t.pick(500usize, 2000);
    let n = t.pick(400_000u64, 5_000_000);
    ctx.generated("random", "sqrt", n, "1..max digits, scales +-2000 (both parities), p small / 1..150 / 100 / 95..105, negatives and zeros included", move || free_strategy(max_len, 150, 8), check_sqrt);
    ctx.generated("long-inputs", "sqrt", n / 2, "40..max digits with p in 1..20: more than 2(p+5) digits", move || long_input_strategy(max_len, false), check_sqrt);
    ctx.generated("constructed-roots", "sqrt", n, "x = R^2 (+-1 in a far digit) where R = p digits ++ {nothing, 5, 50..0x, 49..9x, 0..0x, 9..9x}", || constructed_strategy(2, 150, false), check_sqrt);
    ctx.generated("exact-roots-large-p", "sqrt", n / 2, "x = R^2 with R of 1..60 digits without trailing zeros (also +-1 in a far digit), p = digits(R) + 0..130 / 100 / 150 / 160, trailing zeros and scales of every residue", || exact_large_p_strategy(2, false), check_sqrt);
    ctx.generated("word-sized-near-powers", "sqrt", n / 2, "x = R^2 * 10^(2j) -+ {1,2,3} with R of 1..6 digits and x of 12..40 digits (u64 / u128 sized), p = digits(R) or the root's full length (-1)", || word_sized_strategy(2, false), check_sqrt);
    let _ = BigInt::from(0);
    let _ = Mode::Up;
}
