//! C11 — cube root is the true root rounded as the context dictates, for both signs.

use crate::conv::{build_cfg, dec_of, rm};
use crate::engine::{Ctx, Verdict};
use crate::ensure;
use crate::props::c10::{constructed_strategy, free_strategy, long_input_strategy, small_grid, tail_label, RootCase};
use bdoracle::root::root_rounded;
use bdoracle::round::ALL_MODES;
use bigdecimal::Context;
use num_bigint::BigUint;
use std::num::NonZeroU64;

pub const RULE: &str = "case = (decimal x of either sign, precision p, mode m); cbrt_with_context (and cbrt() when (p, m) is the configured default) must equal the real cube root rounded to p digits under m, Floor/Ceiling on the signed value; additionally cbrt_m(-x) = -cbrt_mirror(m)(x); non-trivial = the root is not representable in p digits; distinct = structural hash";
pub const EXPLANATION: &str = "Oracle: floor integer cube root of |x|*10^(3t) (verified), exactness, midpoint test (2s+1)^3*den vs 8*num, mode table applied to the signed value. Generators as C10 with cubes, both signs, scales of all residues mod 3, p up to 160 (more than an exact root needs).";

pub fn check_cbrt(c: &RootCase) -> Verdict {
    if c.p == 0 {
        return Verdict::inconclusive("p = 0");
    }
    let mode = ALL_MODES[c.mode as usize % 7];
    let ctx = Context::new(NonZeroU64::new(c.p).unwrap(), rm(mode));
    let x = c.d.bd();
    if c.d.is_zero() {
        let mut v = Verdict::pass(false).label("zero");
        let g = dec_of(&x.cbrt_with_context(&ctx));
        ensure!(v, g.is_zero(), "C11/zero", "cbrt(0) = {}", g.show());
        return v;
    }
    let negative = c.d.is_neg();
    let mag: BigUint = c.d.bigint().magnitude().clone();
    let info = root_rounded(&mag, c.d.scale as i128, 3, c.p, mode, negative);
    let want = &info.value;
    let mut v = Verdict::pass(!info.exact).label(tail_label(info.tail));
    v.labels.push(["scale%3=0", "scale%3=1", "scale%3=2"][c.d.scale.rem_euclid(3) as usize]);
    v.labels.push(if negative { "negative" } else { "positive" });
    if c.d.ndigits() as u64 > 3 * (c.p + 4) {
        v.labels.push("digits>3(p+4)");
    }
    let g = dec_of(&x.cbrt_with_context(&ctx));
    ensure!(v, g.eq_val(want), "C11/value:cbrt_with_context", "cbrt_with_context(p={}, {}) = {} expected {} [{}]", c.p, mode.name(), g.show(), want.show(), tail_label(info.tail));
    // sign symmetry under the mirrored mode
    let nx = -x.clone();
    let mctx = Context::new(NonZeroU64::new(c.p).unwrap(), rm(mode.mirrored()));
    let gm = dec_of(&nx.cbrt_with_context(&mctx));
    ensure!(v, gm.eq_val(&g.neg()), "C11/mirror", "cbrt_{}(-x) = {} but -cbrt_{}(x) = {}", mode.mirrored().name(), gm.show(), mode.name(), g.neg().show());
    let cfg = build_cfg();
    if c.p == cfg.precision && mode == cfg.mode {
        v.labels.push("default-context");
        let d = dec_of(&x.cbrt());
        ensure!(v, d.eq_val(want), "C11/value:cbrt-default", "cbrt() = {} expected {}", d.show(), want.show());
    }
    v
}

pub fn run(ctx: &Ctx) {
    let t = ctx.tier;
    let limit = t.pick(5_000u64, 100_000);
    ctx.enumerated(
        "small-exhaustive",
        "cbrt",
        limit * 2 * 7 * 6 * 7,
        true,
        &format!("EXHAUSTIVE: every |n| < {} (both signs) x scale -3..3 x p 1..6 x 7 modes", limit),
        move |i| small_grid(i, limit, true),
        check_cbrt,
    );
    let max_len = t.pick(500usize, 2000);
    let n = t.pick(400_000u64, 5_000_000);
    ctx.generated("random", "cbrt", n, "1..max digits, both signs, scales +-2000 (all residues mod 3), p small / 1..160 / 100 / 95..105", move || free_strategy(max_len, 160, 2), check_cbrt);
    ctx.generated("long-inputs", "cbrt", n / 2, "40..max digits with p in 1..20: more than 3(p+4) digits", move || long_input_strategy(max_len, true), check_cbrt);
    ctx.generated("constructed-roots", "cbrt", n, "x = +-R^3 (+-1 in a far digit) where R = p digits ++ {nothing, 5, 50..0x, 49..9x, 0..0x, 9..9x}", || constructed_strategy(3, 160, true), check_cbrt);
    ctx.generated("exact-roots-large-p", "cbrt", n / 2, "x = R^3 with R of 1..60 digits without trailing zeros (also +-1 in a far digit), p = digits(R) + 0..130 / 100 / 150 / 160, trailing zeros and scales of every residue", || super::c10::exact_large_p_strategy(3, true), check_cbrt);
    ctx.generated("word-sized-near-powers", "cbrt", n / 2, "x = R^3 * 10^(3j) -+ {1,2,3} with R of 1..6 digits and x of 12..40 digits (u64 / u128 sized), p = digits(R) or the root's full length (-1)", || super::c10::word_sized_strategy(3, true), check_cbrt);
}
