//! C16 — precision formatting rounds correctly; flags never alter the digits.

use crate::conv::{build_cfg, dec_of, rm};
use crate::engine::{Ctx, Verdict};
use crate::ensure;
use crate::fmt_table::{fill_align_of, format_with, Kind, FILL_ALIGN_COUNT};
use crate::gen::{self, D};
use bdoracle::numeral::parse_reference;
use bdoracle::padmodel::{pad_model, Align, Flags};
use bdoracle::round::{round_to_prec, round_to_scale};
use bdoracle::Dec;
use proptest::prelude::*;
use serde::{Deserialize, Serialize};
use std::num::NonZeroU64;

pub const RULE: &str = "case = (decimal, kind in {Display, e, E}, precision N or none, flags: fill/align, '+', '0', width); {:.N} must print exactly N fraction digits denoting round_to_scale(x, N, configured mode) (or the unpadded exact value beyond the padding limit), {:.Ne}/{:.NE} a mantissa with N fraction digits denoting round_to_prec(x, N+1), both agreeing with the library's own with_scale_round / with_precision_round; any flagged output must equal the pad_integral model applied to the unflagged numeral; value and reference must print identically; non-trivial = rounding discards non-zero digits or a flag adds characters; distinct = enumerated tuples / structural hash";
pub const EXPLANATION: &str = "Oracles: rounding oracle + reference numeral evaluator for the digits; a model of Formatter::pad_integral (validated against std integer formatting) for the flags. All 456 literal format strings (19 fill/align choices, two of them non-ASCII fills x '+' x '0' x 3 kinds x precision present/absent) are compiled into the harness; width and precision are supplied at run time. The configured rounding mode and padding limit are read from the build environment.";

#[derive(Clone, Debug, Hash, Serialize, Deserialize)]
pub struct FmtCase {
    pub d: D,
    pub kind: Kind,
    pub prec: Option<u32>,
    pub fill_align: u8,
    pub plus: bool,
    pub zero: bool,
    pub width: u16,
}

fn split_sign(s: &str) -> (bool, &str) {
    match s.strip_prefix('-') {
        Some(r) => (false, r),
        None => (true, s),
    }
}

pub fn check_fmt(c: &FmtCase) -> Verdict {
    let cfg = build_cfg();
    let x = c.d.bd();
    let m = c.d.dec();
    let int = c.d.bigint();
    let prec = c.prec.map(|p| p as usize);
    let fa = c.fill_align % FILL_ALIGN_COUNT;
    let plain = format_with(&x, c.kind, 0, false, false, 0, prec);
    let mut v = Verdict::pass(false);
    v.labels.push(match c.kind {
        Kind::Disp => "display",
        Kind::Lower => "lowerexp",
        Kind::Upper => "upperexp",
    });
    // value and reference print identically
    let plain_ref = format_with(&x.to_ref(), c.kind, 0, false, false, 0, prec);
    ensure!(v, plain == plain_ref, "C16/ref-differs", "value prints {:?}, reference prints {:?}", plain, plain_ref);
    let show = |s: &str| crate::engine::truncate(s, 160);
    // ---- digits
    let (_, body) = split_sign(&plain);
    if let Some(n) = prec {
        let n = n as i128;
        match c.kind {
            Kind::Disp => {
                let scale = c.d.scale as i128;
                // the limit is on the number of padded zeros (the point is not a zero)
                let frac_pad = n as u128;
                let zero_pad = if scale <= 0 { (-scale) as u128 + frac_pad } else { 0 };
                // a zero has no integer digits to pad: whether its (absent) integer zeros count towards
                // the limit is not fixed by the statement, so in that band either form is accepted
                let ambiguous_zero = c.d.is_zero() && scale < 0 && frac_pad <= cfg.padding as u128 && zero_pad > cfg.padding as u128;
                let unpadded = if ambiguous_zero { !body.contains('.') && (n > 0 || body.contains('e')) } else { scale <= 0 && zero_pad > cfg.padding as u128 };
                if unpadded {
                    // beyond the padding limit: unpadded, still the exact value
                    v.labels.push("beyond-padding-limit");
                    v.nontrivial = true;
                    ensure!(v, !body.contains('.'), "C16/unpadded-has-point", "{:?} should be unpadded", show(&plain));
                    // "printed unpadded (keeping an exponent when they have one)": the unscaled digits, then e+<-scale>
                    let digits = c.d.int.trim_start_matches('-');
                    let want_body = if scale < 0 { format!("{}e+{}", digits, -scale) } else { digits.to_string() };
                    ensure!(v, body == want_body, "C16/unpadded-text", "{{:.{}}} beyond the padding limit printed {:?}, expected the unpadded form {:?}", n, show(body), show(&want_body));
                    match parse_reference(plain.as_bytes()) {
                        Some((i, s)) => ensure!(v, Dec::new(i, s as i128).eq_val(&m), "C16/unpadded-value", "{:?} does not denote the exact value {}", show(&plain), m.show()),
                        None => ensure!(v, false, "C16/not-a-numeral", "{:?} is not a numeral", show(&plain)),
                    }
                } else {
                    let want = round_to_scale(&int, scale, n, cfg.mode);
                    let discards = n < scale && round_to_scale(&want, n, scale, bdoracle::Mode::Down) != int;
                    if discards {
                        v.nontrivial = true;
                        v.labels.push("rounds");
                    }
                    // shape: digits [. exactly n digits], no exponent
                    let (ip, fp) = match body.split_once('.') {
                        Some((a, b)) => (a, Some(b)),
                        None => (body, None),
                    };
                    // integer part: digits without a superfluous leading zero
                    let shape_ok = !ip.is_empty() && ip.bytes().all(|b| b.is_ascii_digit()) && (ip == "0" || !ip.starts_with('0')) && match fp {
                        None => n == 0,
                        Some(f) => n > 0 && f.len() as i128 == n && f.bytes().all(|b| b.is_ascii_digit()),
                    };
                    ensure!(v, shape_ok, "C16/shape", "{{:.{}}} printed {:?}: not an integer part followed by exactly {} fraction digits", n, show(&plain), n);
                    if shape_ok {
                        let (i, s) = parse_reference(plain.as_bytes()).unwrap();
                        ensure!(v, s as i128 == n && i == want, "C16/value", "{{:.{}}} of {} printed {:?} = {}e{} expected {}e{} ({})", n, m.show(), show(&plain), i, -s, want, -n, cfg.mode.name());
                        // agreement with the library's own rounding
                        let lib = dec_of(&x.with_scale_round(n as i64, rm(cfg.mode)));
                        ensure!(v, lib.int == i && lib.scale == s as i128, "C16/disagrees-with-with_scale_round", "printed {:?} but with_scale_round gives {}", show(&plain), lib.show());
                    }
                }
            }
            Kind::Lower | Kind::Upper => {
                let e = if c.kind == Kind::Lower { 'e' } else { 'E' };
                let want = round_to_prec(&int, c.d.scale as i128, n as u64 + 1, cfg.mode);
                let nd = c.d.ndigits() as i128;
                if nd > n + 1 && !want.eq_val(&m) {
                    v.nontrivial = true;
                    v.labels.push("rounds");
                }
                let (mant, exp) = match body.split_once(e) {
                    Some(p) => p,
                    None => {
                        ensure!(v, false, "C16/shape", "{:?} has no exponent marker {:?}", show(&plain), e);
                        ("", "")
                    }
                };
                let (ip, fp) = match mant.split_once('.') {
                    Some((a, b)) => (a, Some(b)),
                    None => (mant, None),
                };
                let exp_ok = exp.len() >= 2 && (exp.starts_with('+') || exp.starts_with('-')) && exp[1..].bytes().all(|b| b.is_ascii_digit());
                // one leading digit, non-zero unless the printed value is zero (N + 1 SIGNIFICANT digits)
                let shape_ok = ip.len() == 1 && ip.bytes().all(|b| b.is_ascii_digit()) && (ip != "0" || want.is_zero()) && exp_ok && match fp {
                    None => n == 0,
                    Some(f) => n > 0 && f.len() as i128 == n && f.bytes().all(|b| b.is_ascii_digit()),
                };
                ensure!(v, shape_ok, "C16/shape", "{{:.{}{}}} printed {:?}: not d[.{} digits]{}[+-]digits", n, e, show(&plain), n, e);
                if shape_ok {
                    let (i, s) = parse_reference(plain.as_bytes()).unwrap();
                    let got = Dec::new(i, s as i128);
                    ensure!(v, got.eq_val(&want), "C16/value", "{{:.{}{}}} of {} printed {:?} expected the value {} ({})", n, e, m.show(), show(&plain), want.show(), cfg.mode.name());
                    if !c.d.is_zero() {
                        let lib = dec_of(&x.with_precision_round(NonZeroU64::new(n as u64 + 1).unwrap(), rm(cfg.mode)));
                        ensure!(v, lib.eq_val(&got), "C16/disagrees-with-with_precision_round", "printed {:?} but with_precision_round gives {}", show(&plain), lib.show());
                    }
                }
            }
        }
    } else {
        // no precision: the numeral must denote the exact value (C04 covers the details)
        match parse_reference(plain.as_bytes()) {
            Some((i, s)) => ensure!(v, Dec::new(i, s as i128).eq_val(&m), "C16/value", "{:?} does not denote {}", show(&plain), m.show()),
            None => ensure!(v, false, "C16/not-a-numeral", "{:?} is not a numeral", show(&plain)),
        }
    }
    // a minus sign is printed only for a negative value (whether a negative value that rounds to zero keeps it is not
    // fixed by the statement)
    ensure!(v, !plain.starts_with('-') || c.d.is_neg(), "C16/minus-on-non-negative", "{:?} printed for the non-negative value {}", show(&plain), m.show());
    // ---- flags
    let (fill, align) = fill_align_of(fa);
    let flags = Flags { plus: c.plus, zero: c.zero, width: Some(c.width as usize), fill, align: align.map(|a| [Align::Left, Align::Center, Align::Right][a as usize]) };
    let flagged = format_with(&x, c.kind, fa, c.plus, c.zero, c.width as usize, prec);
    let flagged_ref = format_with(&x.to_ref(), c.kind, fa, c.plus, c.zero, c.width as usize, prec);
    let (nonneg, body) = split_sign(&plain);
    let want = pad_model(nonneg, body, flags);
    if want != plain {
        v.nontrivial = true;
        v.labels.push("flag-adds-characters");
    }
    ensure!(v, flagged == want, "C16/flags", "flags {:?} printed {:?} expected {:?} (unflagged numeral {:?})", flags, show(&flagged), show(&want), show(&plain));
    ensure!(v, flagged_ref == flagged, "C16/ref-differs", "flagged value prints {:?}, reference prints {:?}", show(&flagged), show(&flagged_ref));
    v
}

// ---------------------------------------------------------------- generators

fn small_total(limit: u64) -> u64 {
    (2 * limit - 1) * 12 * 10 * 3
}

fn small_case(i: u64, limit: u64) -> Option<FmtCase> {
    let mut k = i;
    let kind = [Kind::Disp, Kind::Lower, Kind::Upper][(k % 3) as usize];
    k /= 3;
    let n = (k % 10) as u32;
    k /= 10;
    let scale = (k % 12) as i64 - 3;
    k /= 12;
    let val = k as i64 - (limit as i64 - 1);
    // flags vary deterministically with the index so the exhaustive sweep also exercises them
    let fa = (i % 19) as u8;
    Some(FmtCase { d: D::new(val.to_string(), scale), kind, prec: Some(n), fill_align: fa, plus: i % 2 == 1, zero: (i / 2) % 3 == 0, width: (i % 19) as u16 })
}

// tail families plus machine-word structured digits (boundary 32-bit words, 2^k + d, all-ones limbs)
const TAIL_SHAPES: &[u8] = &[0, 1, 5, 6, 7, 8, 10, 2, 4, 14, 14, 9, 12, 13];

fn fmt_strategy(max_len: usize) -> BoxedStrategy<FmtCase> {
    let scale = prop_oneof![5 => -20i64..=60, 2 => -1100i64..=400, 1 => -30i64..=-1];
    let prec = prop_oneof![
        1 => Just(None),
        5 => (0u32..=30).prop_map(Some),
        1 => (0u32..=1100).prop_map(Some),
        1 => (990u32..=1010).prop_map(Some),
    ];
    (gen::digspec_shapes(max_len, TAIL_SHAPES), any::<bool>(), scale, prec, 0..10u8, (0..3u8, 0..FILL_ALIGN_COUNT, any::<bool>(), any::<bool>(), 0u16..=40), 0..25u8)
        .prop_map(|(spec, neg, scale, prec, aim, (kind, fill_align, plus, zero, width), zero_val)| {
            let digits = if zero_val == 0 { "0".to_string() } else { gen::digits_of(&spec) };
            let nd = digits.len() as i64;
            let kind = [Kind::Disp, Kind::Lower, Kind::Upper][kind as usize];
            // aim the precision at the tail family's cut half of the time
            let cut = gen::tail_cut(&spec) as i64;
            let prec = match (aim, prec) {
                (0..=4, Some(_)) => match kind {
                    // Display: keep `cut` digits => N = scale - (nd - cut)
                    Kind::Disp => Some((scale - (nd - cut)).clamp(0, 1100) as u32),
                    // exponential: N + 1 significant digits
                    _ => Some((cut - 1).clamp(0, 1100) as u32),
                },
                (5, Some(_)) if kind == Kind::Disp => Some((scale - nd - 1).clamp(0, 1100) as u32), // value below half a unit of the last place
                (6, Some(_)) if kind == Kind::Disp => Some((scale - nd).clamp(0, 1100) as u32),     // rounding point just left of the first digit
                (7, Some(_)) if kind == Kind::Disp => Some((scale - nd + 1).clamp(0, 1100) as u32), // keep exactly one digit
                (_, p) => p,
            };
            FmtCase { d: D::new(if neg && digits != "0" { format!("-{}", digits) } else { digits }, scale), kind, prec, fill_align, plus, zero, width }
        })
        .boxed()
}

pub fn run(ctx: &Ctx) {
    let t = ctx.tier;
    let limit = t.pick(10_000u64, 300_000);
    ctx.enumerated(
        "small-exhaustive",
        "fmt",
        small_total(limit),
        true,
        &format!("EXHAUSTIVE: every |n| < {} x scales -3..8 x N 0..9 x {{:.N}} {{:.Ne}} {{:.NE}} (flags cycle with the index)", limit),
        move |i| small_case(i, limit),
        check_fmt,
    );
    ctx.enumerated(
        "flag-matrix",
        "fmt",
        19 * 2 * 2 * 3 * 2 * 41 * 4,
        true,
        "EXHAUSTIVE: 19 fill/align choices (fills space * 0 # U+2192 U+00E9) x '+' x '0' x 3 kinds x precision {none, 2} x width 0..40 x 4 values",
        |i| {
            let mut k = i;
            let val = [D::new("12345", 2), D::new("-12345", 2), D::new("0", 0), D::new("-5", 4)][(k % 4) as usize].clone();
            k /= 4;
            let width = (k % 41) as u16;
            k /= 41;
            let prec = if k % 2 == 0 { None } else { Some(2) };
            k /= 2;
            let kind = [Kind::Disp, Kind::Lower, Kind::Upper][(k % 3) as usize];
            k /= 3;
            let zero = k % 2 == 1;
            k /= 2;
            let plus = k % 2 == 1;
            k /= 2;
            Some(FmtCase { d: val, kind, prec, fill_align: k as u8, plus, zero, width })
        },
        check_fmt,
    );
    {
        // the padding limit with a precision: -scale + N in limit-1 ..= limit+2 for every scale -1100..0
        let limit = build_cfg().padding as i64;
        let digs = ["8", "37", "120", "0", "99999999999999999999"];
        let total = 1101u64 * 4 * digs.len() as u64 * 2;
        ctx.enumerated(
            "padding-limit-boundary",
            "fmt",
            total,
            true,
            "EXHAUSTIVE: every scale -1100..0 x N = limit + scale + {-1,0,1,2} x 5 digit strings (incl. zero and trailing zeros) x both signs, {:.N}",
            move |i| {
                let mut k = i;
                let neg = k % 2 == 1;
                k /= 2;
                let d = digs[(k % digs.len() as u64) as usize];
                k /= digs.len() as u64;
                let dn = (k % 4) as i64 - 1;
                k /= 4;
                let scale = -(k as i64);
                let n = limit + scale + dn;
                if n < 0 {
                    return None;
                }
                Some(FmtCase { d: D::new(if neg && d != "0" { format!("-{}", d) } else { d.to_string() }, scale), kind: Kind::Disp, prec: Some(n as u32), fill_align: (i % 19) as u8, plus: i % 3 == 0, zero: i % 5 == 0, width: (i % 7) as u16 })
            },
            check_fmt,
        );
    }
    let max_len = t.pick(300usize, 300);
    ctx.generated(
        "random",
        "fmt",
        t.pick(1_500_000, 15_000_000),
        "up to 300 digits, scales -1100..400, N in 0..30 / 0..1100 / 990..1010 / aimed at a tie, near-tie or all-nines tail / below half a unit of the last place; random flags and width 0..40",
        move || fmt_strategy(max_len),
        check_fmt,
    );
}
