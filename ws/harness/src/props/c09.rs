//! C09 — remainder satisfies the truncated-division identity exactly.

use crate::conv::dec_of;
use crate::engine::{catch, Ctx, Verdict};
use crate::ensure;
use crate::gen::{self, D};
use bigdecimal::BigDecimal;
use proptest::prelude::*;
use serde::{Deserialize, Serialize};
use std::cmp::Ordering;

pub const RULE: &str = "case = pair (a, b); b != 0: all four ownership forms of % and %= must equal a - b*trunc(a/b) computed by the model, with |r| < |b|, r = 0 or sign(r) = sign(a), and a % -b = a % b; b == 0: every form must panic; non-trivial = r != 0, |a| > |b| and the scales differ; distinct = structural hash";
pub const EXPLANATION: &str = "Oracle: align both operands to the larger scale with exact powers of ten, BigInt truncated remainder. Generated pairs span scale gaps 0..10^4 in both directions, |a| <, =, > |b|, exact multiples (a = b*k) and value-equal twins.";

#[derive(Clone, Debug, Hash, Serialize, Deserialize)]
pub struct Pair {
    pub a: D,
    pub b: D,
}

pub fn check_pair(c: &Pair) -> Verdict {
    let (a, b) = (c.a.bd(), c.b.bd());
    let (ma, mb) = (c.a.dec(), c.b.dec());
    if mb.is_zero() {
        // zero divisor: every form must panic
        let mut v = Verdict::pass(true).label("zero-divisor");
        let forms: Vec<(&str, Box<dyn Fn() -> BigDecimal>)> = vec![
            ("BD%BD", Box::new(|| a.clone() % b.clone())),
            ("BD%&BD", Box::new(|| a.clone() % &b)),
            ("&BD%BD", Box::new(|| &a % b.clone())),
            ("&BD%&BD", Box::new(|| &a % &b)),
            ("BD%=&BD", Box::new(|| {
                let mut x = a.clone();
                x %= &b;
                x
            })),
        ];
        for (name, f) in forms {
            let r = catch(|| f());
            ensure!(v, r.is_err(), format!("C09/zero-divisor-no-panic:{}", name), "{} with a zero divisor returned {:?} instead of panicking", name, r.as_ref().ok().map(D::of));
        }
        return v;
    }
    let want = ma.rem_trunc(&mb);
    let gap = (c.a.scale as i128 - c.b.scale as i128).unsigned_abs() as u64;
    let a_gt_b = ma.abs().cmp_val(&mb.abs());
    let mut v = Verdict::pass(!want.is_zero() && a_gt_b == Ordering::Greater && gap != 0);
    v.labels.push(gen::gap_label(gap));
    v.labels.push(match a_gt_b {
        Ordering::Less => "|a|<|b|",
        Ordering::Equal => "|a|=|b|",
        Ordering::Greater => "|a|>|b|",
    });
    if want.is_zero() {
        v.labels.push("exact-multiple");
    }
    let results: Vec<(&str, BigDecimal)> = vec![
        ("BD%BD", a.clone() % b.clone()),
        ("BD%&BD", a.clone() % &b),
        ("&BD%BD", &a % b.clone()),
        ("&BD%&BD", &a % &b),
        ("BD%=&BD", {
            let mut x = a.clone();
            x %= &b;
            x
        }),
    ];
    for (name, r) in &results {
        let g = dec_of(r);
        ensure!(v, g.eq_val(&want), format!("C09/value:{}", name), "{} = {} expected {}", name, g.show(), want.show());
        ensure!(v, g.abs().cmp_val(&mb.abs()) == Ordering::Less, format!("C09/magnitude:{}", name), "|{}| = {} is not smaller than |b| = {}", name, g.show(), mb.show());
        ensure!(v, g.is_zero() || g.signum() == ma.signum(), format!("C09/sign:{}", name), "{} = {} does not carry the sign of a", name, g.show());
    }
    // unaffected by the sign of b
    let nb = -b.clone();
    let r2 = dec_of(&(&a % &nb));
    ensure!(v, r2.eq_val(&want), "C09/sign-of-divisor", "a % -b = {} but a % b = {}", r2.show(), want.show());
    v
}

fn pair_strategy(max_len: usize) -> BoxedStrategy<Pair> {
    (gen::decimal(max_len, 5000), gen::sdigits(max_len), gen::gap_strategy(10_000), any::<bool>(), 0..16u8, gen::sdigits(40))
        .prop_map(|(a, bint, gap, dir, special, kint)| {
            let bscale = if dir { a.scale + gap as i64 } else { a.scale - gap as i64 };
            let b = match special {
                0 => D::new("0", bscale), // zero divisor
                1 => {
                    // twin of a (equal value, other representation)
                    let g = (gap % 300) as usize;
                    if a.is_zero() {
                        D::new("1", bscale)
                    } else {
                        D::new(format!("{}{}", a.int, "0".repeat(g)), a.scale + g as i64)
                    }
                }
                _ => D::new(if bint == "0" { "3".to_string() } else { bint }, bscale),
            };
            let a = match special {
                2 | 3 => {
                    // exact multiple: a = b * k, written at another scale
                    let k = crate::conv::bigint(&kint);
                    let m = b.bigint() * k;
                    let g = (gap % 40) as usize;
                    if m == num_bigint::BigInt::from(0) {
                        a
                    } else {
                        D::new(format!("{}{}", m, "0".repeat(g)), b.scale + g as i64)
                    }
                }
                4 => b.negated(),
                _ => a,
            };
            // the same relations with the OTHER operand at the finer scale (each Rem impl rescales the numerator or the
            // denominator depending on the direction)
            let (a, b) = match special {
                12 => {
                    // twin, divisor coarser: a = b written with g more zeros
                    let g = (gap % 300) as usize;
                    (D::new(format!("{}{}", b.int, "0".repeat(g)), b.scale + g as i64), b)
                }
                13 | 14 => {
                    // exact multiple with the divisor at the finer scale: b' = b with g zeros, a = k * b at b's scale
                    let k = crate::conv::bigint(&kint);
                    let m = b.bigint() * k;
                    let g = 1 + (gap % 40) as usize;
                    (D::new(m.to_string(), b.scale), D::new(format!("{}{}", b.int, "0".repeat(g)), b.scale + g as i64))
                }
                15 => {
                    // |a| = |b| - one unit of the finer operand / + one unit: just below and just above an exact multiple
                    let g = (gap % 60) as usize;
                    let fine: num_bigint::BigInt = b.bigint() * num_bigint::BigInt::from(10u8).pow(g as u32) + num_bigint::BigInt::from(if dir { 1 } else { -1 });
                    (D::new(fine.to_string(), b.scale + g as i64), b)
                }
                _ => (a, b),
            };
            Pair { a, b }
        })
        .boxed()
}

pub fn run(ctx: &Ctx) {
    let t = ctx.tier;
    ctx.enumerated(
        "small-exhaustive",
        "pair",
        401 * 401 * 9,
        true,
        "EXHAUSTIVE: a, b in -200..200 (b = 0 included: must panic) x scale pairs from {-1,0,2}^2",
        |i| {
            let mut k = i;
            let sp = k % 9;
            k /= 9;
            let b = (k % 401) as i64 - 200;
            k /= 401;
            let a = k as i64 - 200;
            let sc = [-1i64, 0, 2];
            Some(Pair { a: D::new(a.to_string(), sc[(sp % 3) as usize]), b: D::new(b.to_string(), sc[(sp / 3) as usize]) })
        },
        check_pair,
    );
    let max_gap = t.pick(3000u64, 10_000);
    ctx.enumerated(
        "gap-sweep",
        "pair",
        (max_gap + 1) * 8,
        true,
        &format!("EXHAUSTIVE: every scale gap 0..={} in both directions x 4 sign pairs, short operands", max_gap),
        move |i| {
            let gap = (i % (max_gap + 1)) as i64;
            let k = i / (max_gap + 1);
            // operand pair from a hash of the index: every gap meets all 16 pairs over the sign/direction combinations and seeds
            let h = crate::gen::SplitMix(i).next();
            let (a, b) = (["982451653", "7", "123456789012345678901", "1000000007"][(h % 4) as usize], ["37", "48112959837082048697", "3", "999"][((h / 4) % 4) as usize]);
            let a = if k & 1 == 1 { format!("-{}", a) } else { a.to_string() };
            let b = if k & 2 == 2 { format!("-{}", b) } else { b.to_string() };
            if k & 4 == 4 { Some(Pair { a: D::new(a, gap), b: D::new(b, 0) }) } else { Some(Pair { a: D::new(a, 0), b: D::new(b, gap) }) }
        },
        check_pair,
    );
    ctx.enumerated(
        "near-twin-sweep",
        "pair",
        max_gap * 12 * 4 * 2,
        true,
        &format!("EXHAUSTIVE: every scale gap 1..={} x divisors {{1, 2, 8, 1024, 8e3, 2^64, 2^400, 3, 37, 999, 10^9+7, 2^32-1}} x dividend = divisor re-represented at the finer scale + {{0, 1, 12345, divisor-1}} units, and mirrored (the DIVISOR re-represented at the finer scale, dividend = divisor + the same deltas at the coarse scale); sign alternates", max_gap),
        move |i| {
            let gap = 1 + (i % max_gap) as u32;
            let k = i / max_gap;
            let bi: num_bigint::BigInt = match k % 12 {
                0 => 1.into(),
                1 => 2.into(),
                2 => 8.into(),
                3 => 1024.into(),
                4 => 8000.into(),
                5 => num_bigint::BigInt::from(1) << 64,
                6 => num_bigint::BigInt::from(1) << 400,
                7 => 3.into(),
                8 => 37.into(),
                9 => 999.into(),
                10 => 1_000_000_007.into(),
                _ => 4_294_967_295u64.into(),
            };
            let delta: num_bigint::BigInt = match (k / 12) % 4 {
                0 => 0.into(),
                1 => 1.into(),
                2 => 12345.into(),
                _ => &bi - 1,
            };
            let ai = &bi * num_bigint::BigInt::from(10u8).pow(gap) + delta;
            let neg = i % 2 == 1;
            if (k / 48) % 2 == 1 {
                // mirrored: divisor written with `gap` extra zeros, dividend at the coarse scale
                let delta: num_bigint::BigInt = match (k / 12) % 4 {
                    0 => 0.into(),
                    1 => 1.into(),
                    2 => 12345.into(),
                    _ => &bi - 1,
                };
                let ai = &bi + delta;
                let b_fine = &bi * num_bigint::BigInt::from(10u8).pow(gap);
                return Some(Pair { a: D::new(if neg { format!("-{}", ai) } else { ai.to_string() }, 0), b: D::new(b_fine.to_string(), gap as i64) });
            }
            let a = D::new(if neg { format!("-{}", ai) } else { ai.to_string() }, gap as i64);
            Some(Pair { a, b: D::new(bi.to_string(), 0) })
        },
        check_pair,
    );
    ctx.generated(
        "machine-word-operands",
        "pair",
        t.pick(400_000, 2_000_000),
        "unscaled integers around 2^31, 2^32, 2^63, 2^64, 2^127, 2^128 (+- small, or anywhere in the binade) on either side, scale gaps 0..3 (mostly equal scales), both signs",
        || {
            fn word(which: u8, how: u8, r: u64) -> num_bigint::BigInt {
                let base = num_bigint::BigInt::from(1) << [31usize, 32, 63, 64, 127, 128][which as usize % 6];
                match how % 4 {
                    0 => &base + num_bigint::BigInt::from(r % 7) - 3,
                    1 => &base - num_bigint::BigInt::from(1 + r % 100_000),
                    // anywhere in the binade above the base
                    2 => &base + (&base * num_bigint::BigInt::from(r % 1_000_000)) / num_bigint::BigInt::from(1_000_000),
                    _ => num_bigint::BigInt::from(r),
                }
            }
            (0..6u8, 0..4u8, any::<u64>(), 0..6u8, 0..4u8, any::<u64>(), 0..4u8, -20i64..=20, 0..8u8)
                .prop_map(|(wa, ha, ra, wb, hb, rb, signs, scale, gap)| {
                    let (a, b) = (word(wa, ha, ra), word(wb, hb, rb));
                    let b = if b == num_bigint::BigInt::from(0) { num_bigint::BigInt::from(3) } else { b };
                    let a = if signs & 1 == 1 { -a } else { a };
                    let b = if signs & 2 == 2 { -b } else { b };
                    let g = [0i64, 0, 0, 0, 0, 1, 2, 3][gap as usize];
                    Pair { a: D::new(a.to_string(), scale + if ra & 1 == 1 { g } else { 0 }), b: D::new(b.to_string(), scale + if ra & 1 == 1 { 0 } else { g }) }
                })
                .boxed()
        },
        check_pair,
    );
    let max_len = t.pick(400usize, 2000);
    ctx.generated("random-pairs", "pair", t.pick(1_000_000, 10_000_000), "1..max digits, gaps 0..10^4 both directions, zero divisors, twins and exact multiples with either operand at the finer scale, one unit off a multiple, a = -b", move || pair_strategy(max_len), check_pair);
}
