//! C07 — rounding to a precision honours the rounding mode at the p-th digit.

use crate::conv::{dec_of, rm};
use crate::engine::{Ctx, Verdict};
use crate::ensure;
use crate::gen::{self, D};
use bdoracle::round::{round_to_prec, ALL_MODES};
use bdoracle::{Dec, Mode};
use bigdecimal::{BigDecimal, Context};
use proptest::prelude::*;
use serde::{Deserialize, Serialize};
use std::num::NonZeroU64;

pub const RULE: &str = "case = (decimal, p, mode) [or (a, b, p, mode) for context sums]; every precision-rounding entry point must return the oracle's value (and exactly p digits when the input is shorter than p); with_prec(p) must equal the HalfUp result and commute with negation; non-trivial = input has more than p digits and the discarded part is non-zero; distinct = structural hash / enumerated tuples";
pub const EXPLANATION: &str = "Oracle: round_to_prec = round_to_scale at scale + (p - digits). Entry points: with_precision_round, Context::round_decimal, round_decimal_ref (from &BigDecimal, BigDecimalRef and &BigInt), BigDecimalRef::round_with_context, Context::add_refs / add_refs_into, with_prec. Exhaustive stage: every |n| < limit x scale {-2,0,3} x every p in 1..digits+5 x 7 modes. After an all-nines carry the library may return p+1 digits; only the value is compared there (see DESIGN.md section 3).";

#[derive(Clone, Debug, Hash, Serialize, Deserialize)]
pub struct PrecCase {
    pub d: D,
    pub p: u64,
    pub mode: u8,
}

fn ctx_of(p: u64, mode: Mode) -> Context {
    Context::new(NonZeroU64::new(p).unwrap(), rm(mode))
}

/// the same context reached through the builder methods, in both orders
fn ctx_built(p: u64, mode: Mode) -> [Context; 3] {
    let nz = NonZeroU64::new(p).unwrap();
    [
        Context::default().with_precision(nz).with_rounding_mode(rm(mode)),
        Context::default().with_rounding_mode(rm(mode)).with_prec(p).expect("with_prec(p > 0)"),
        ctx_of(1 + p % 7, ALL_MODES[(p % 7) as usize]).with_prec(p as u128).expect("with_prec(p > 0)").with_rounding_mode(rm(mode)),
    ]
}

fn check_result(v: &mut Verdict, what: &str, got: &BigDecimal, want: &Dec, input_digits: u64, p: u64) {
    let g = dec_of(got);
    ensure!(v, g.eq_val(want), format!("C07/value:{}", what), "{} = {} expected {}", what, g.show(), want.show());
    if input_digits <= p {
        // exact, padded with zeros to exactly p digits (zero stays a single digit)
        if !want.is_zero() {
            ensure!(v, g == *want, format!("C07/padding:{}", what), "{} = {} expected the representation {} ({} digits)", what, g.show(), want.show(), p);
        }
    }
}

pub fn check_prec(c: &PrecCase) -> Verdict {
    if c.p == 0 {
        return Verdict::inconclusive("p = 0 is not a precision");
    }
    let mode = ALL_MODES[c.mode as usize % 7];
    let x = c.d.bd();
    let int = c.d.bigint();
    let nd = c.d.ndigits() as u64;
    let want = round_to_prec(&int, c.d.scale as i128, c.p, mode);
    let discards = nd > c.p && {
        let digits = c.d.int.trim_start_matches('-');
        digits[c.p as usize..].bytes().any(|b| b != b'0')
    };
    let mut v = Verdict::pass(discards);
    v.labels.push(if nd < c.p {
        "p>digits"
    } else if nd == c.p {
        "p=digits"
    } else if nd == c.p + 1 {
        "p=digits-1"
    } else {
        "p<digits-1"
    });
    let prec = NonZeroU64::new(c.p).unwrap();
    let ctx = ctx_of(c.p, mode);
    check_result(&mut v, "with_precision_round", &x.with_precision_round(prec, rm(mode)), &want, nd, c.p);
    check_result(&mut v, "Context::round_decimal", &ctx.round_decimal(x.clone()), &want, nd, c.p);
    check_result(&mut v, "Context::round_decimal_ref(&BigDecimal)", &ctx.round_decimal_ref(&x), &want, nd, c.p);
    check_result(&mut v, "Context::round_decimal_ref(BigDecimalRef)", &ctx.round_decimal_ref(x.to_ref()), &want, nd, c.p);
    check_result(&mut v, "BigDecimalRef::round_with_context", &x.to_ref().round_with_context(&ctx), &want, nd, c.p);
    for (k, bctx) in ctx_built(c.p, mode).iter().enumerate() {
        ensure!(v, bctx.precision().get() == c.p && crate::conv::mode_of(bctx.rounding_mode()) == mode, format!("C07/context-builder:{}", k), "context builder {} reports ({}, {:?}) instead of ({}, {})", k, bctx.precision(), bctx.rounding_mode(), c.p, mode.name());
        check_result(&mut v, ["round_decimal_ref via with_precision+with_rounding_mode", "round_decimal_ref via with_rounding_mode+with_prec", "round_decimal_ref via a re-configured context"][k], &bctx.round_decimal_ref(&x), &want, nd, c.p);
    }
    // references whose sign was flipped / dropped without touching the digits round like the corresponding value
    {
        let neg_int = -int.clone();
        let want_neg = round_to_prec(&neg_int, c.d.scale as i128, c.p, mode);
        check_result(&mut v, "(-ref).round_with_context", &(-x.to_ref()).round_with_context(&ctx), &want_neg, nd, c.p);
        check_result(&mut v, "Context::round_decimal_ref(-ref)", &ctx.round_decimal_ref(-x.to_ref()), &want_neg, nd, c.p);
        let abs_int = num_bigint::BigInt::from(int.magnitude().clone());
        let want_abs = round_to_prec(&abs_int, c.d.scale as i128, c.p, mode);
        check_result(&mut v, "ref.abs().round_with_context", &x.to_ref().abs().round_with_context(&ctx), &want_abs, nd, c.p);
    }
    // big integers: the unscaled integer as a value of its own
    let want_int = round_to_prec(&int, 0, c.p, mode);
    check_result(&mut v, "Context::round_decimal_ref(&BigInt)", &ctx.round_decimal_ref(&int), &want_int, nd, c.p);
    // with_prec: ties away from zero, symmetric under negation
    if mode == Mode::HalfUp {
        let wp = x.with_prec(c.p);
        check_result(&mut v, "with_prec", &wp, &want, nd, c.p);
        let neg = (-x.clone()).with_prec(c.p);
        let (a, b) = (dec_of(&neg), dec_of(&wp).neg());
        ensure!(v, a.eq_val(&b), "C07/with_prec-asymmetric", "with_prec(-x) = {} but -with_prec(x) = {}", a.show(), b.show());
    }
    v
}

#[derive(Clone, Debug, Hash, Serialize, Deserialize)]
pub struct SumCase {
    pub a: D,
    pub b: D,
    pub p: u64,
    pub mode: u8,
}

pub fn check_sum(c: &SumCase) -> Verdict {
    if c.p == 0 {
        return Verdict::inconclusive("p = 0 is not a precision");
    }
    let mode = ALL_MODES[c.mode as usize % 7];
    let (a, b) = (c.a.bd(), c.b.bd());
    let exact = c.a.dec().add(&c.b.dec());
    let want = round_to_prec(&exact.int, exact.scale, c.p, mode);
    let nd = bdoracle::dec::ndigits(&exact.int);
    let canon_digits = bdoracle::dec::ndigits(&exact.canonical().int);
    let mut v = Verdict::pass(!exact.is_zero() && canon_digits > c.p);
    let ctx = ctx_of(c.p, mode);
    let r1 = ctx.add_refs(&a, &b);
    let r2 = ctx.add_refs(a.to_ref(), b.to_ref());
    let mut dest = BigDecimal::from(7);
    ctx.add_refs_into(&a, b.to_ref(), &mut dest);
    let r3 = ctx_built(c.p, mode)[1].add_refs(&a, b.to_ref());
    for (what, got) in [("add_refs(&,&)", &r1), ("add_refs(Ref,Ref)", &r2), ("add_refs_into", &dest), ("add_refs with a built context", &r3)] {
        let g = dec_of(got);
        ensure!(v, g.eq_val(&want), format!("C07/sum:{}", what), "{} = {} expected {} (exact sum {})", what, g.show(), want.show(), exact.show());
        if nd <= c.p && !exact.is_zero() {
            ensure!(v, g == want, format!("C07/sum-padding:{}", what), "{} = {} expected the representation {} ({} digits)", what, g.show(), want.show(), c.p);
        }
    }
    // a sign-flipped reference as an operand: (-a) + b
    {
        let exact_n = c.a.dec().neg().add(&c.b.dec());
        let want_n = round_to_prec(&exact_n.int, exact_n.scale, c.p, mode);
        let g = dec_of(&ctx.add_refs(-a.to_ref(), &b));
        ensure!(v, g.eq_val(&want_n), "C07/sum:add_refs(-Ref,&)", "add_refs(-a, b) = {} expected {} (exact {})", g.show(), want_n.show(), exact_n.show());
    }
    // where the exact sum sits relative to the p-th digit
    if !exact.is_zero() {
        let digits = exact.int.magnitude().to_string();
        let p = c.p as usize;
        v.labels.push(if digits.len() <= p {
            "sum-fits-p-digits"
        } else {
            let tail = &digits[p..];
            let rest_zero = tail[1..].bytes().all(|b| b == b'0');
            match (tail.as_bytes()[0], rest_zero) {
                (b'5', true) => "sum-tail-exact-tie",
                (b'0', true) => "sum-tail-zero",
                (b'5', false) if tail[1..].starts_with("000") => "sum-tail-just-above-tie",
                (b'4', false) if tail[1..].starts_with("999") => "sum-tail-just-below-tie",
                _ => "sum-tail-other",
            }
        });
    } else {
        v.labels.push("sum-zero");
    }
    let _ = nd;
    v
}

// ---------------------------------------------------------------- generators

fn small_total(limit: u64) -> u64 {
    (2 * limit - 1) * 3 * 11 * 7
}

fn small_case(i: u64, limit: u64) -> Option<PrecCase> {
    let mut k = i;
    let mode = (k % 7) as u8;
    k /= 7;
    let p = 1 + k % 11;
    k /= 11;
    let scale = [-2i64, 0, 3][(k % 3) as usize];
    k /= 3;
    let n = k as i64 - (limit as i64 - 1);
    let nd = if n == 0 { 1 } else { n.unsigned_abs().to_string().len() as u64 };
    if p > nd + 5 {
        return None;
    }
    Some(PrecCase { d: D::new(n.to_string(), scale), p, mode })
}

const TAIL_SHAPES: &[u8] = &[0, 1, 5, 6, 7, 8, 10, 2, 3, 4, 14, 14, 12, 13];

fn prec_strategy(max_len: usize) -> BoxedStrategy<PrecCase> {
    let scale = prop_oneof![
        6 => gen::scale_strategy(5000),
        1 => (0i64..3000).prop_map(|d| i64::MAX - 4000 + d),
        1 => (0i64..3000).prop_map(|d| i64::MIN + 4000 - d + 3000),
    ];
    (gen::digspec_shapes(max_len, TAIL_SHAPES), any::<bool>(), scale, 0..10u8, any::<u16>(), 0u64..=5, 0..7u8, 0..25u8)
        .prop_map(|(spec, neg, scale, where_, pos, off, mode, zero)| {
            let digits = if zero == 0 { "0".to_string() } else { gen::digits_of(&spec) };
            let nd = digits.len() as u64;
            // (a zero has one digit whatever the drawn spec says: its precision stays small, so that the padded scale of
            // a zero placed next to i64::MAX remains representable)
            let cut = if zero == 0 { 1 } else { gen::tail_cut(&spec) };
            let p = match where_ {
                0..=3 => cut,                         // at the tail family's cut
                4 => nd,                              // equal to the digit count
                5 => nd.saturating_sub(1).max(1),     // one below
                6 => nd + 1 + off,                    // above (padding)
                7 => 1 + off.min(nd),                 // tiny
                _ => 1 + gen::pick_idx(pos, nd as usize) as u64,
            };
            PrecCase { d: D::new(if neg && digits != "0" { format!("-{}", digits) } else { digits }, scale), p: p.max(1), mode }
        })
        .boxed()
}

/// scales within a few digits of i64::MIN / i64::MAX, p chosen so that the new scale is representable
fn extreme_scale_strategy() -> BoxedStrategy<PrecCase> {
    (gen::digspec_shapes(60, TAIL_SHAPES), any::<bool>(), any::<bool>(), 0i64..80, 0u64..70, 0..7u8)
        .prop_map(|(spec, neg, high, off, praw, mode)| {
            let digits = gen::digits_of(&spec);
            let nd = digits.len() as i64;
            let (scale, p) = if high {
                // scale + (p - nd) <= i64::MAX  <=>  p <= nd + off
                let scale = i64::MAX - off;
                (scale, 1 + praw % (nd + off).max(1) as u64)
            } else {
                // scale + (p - nd) >= i64::MIN  <=>  p >= nd - off
                let scale = i64::MIN + off;
                ((scale), (nd - off).max(1) as u64 + praw % 8)
            };
            PrecCase { d: D::new(if neg && digits != "0" { format!("-{}", digits) } else { digits }, scale), p, mode }
        })
        .boxed()
}

fn sum_strategy(max_len: usize) -> BoxedStrategy<SumCase> {
    (gen::decimal(max_len, 2000), gen::sdigits(max_len.max(800)), gen::gap_strategy(700), any::<bool>(), prop_oneof![3 => 1u64..=120, 1 => 1u64..=900], 0..7u8, 0..6u8)
        .prop_map(|(a, bint, gap, dir, p, mode, special)| {
            let bscale = if dir { a.scale + gap as i64 } else { a.scale - gap as i64 };
            let b = match special {
                0 => a.negated(),                                       // sum is zero
                1 => {
                    // carry into a new digit: b = 10^k - a style complement on the magnitude
                    let n = a.ndigits();
                    D::new(format!("{}{}", if a.is_neg() { "-" } else { "" }, "9".repeat(n)), a.scale)
                }
                2 => {
                    // borrow cascade: a = +-d * 10^k (one digit followed by zeros), b of the opposite sign lying
                    // entirely below (or just overlapping) a's last digit: the exact sum is 99..9xxx
                    let k = a.ndigits().min(130);
                    let lead = if a.int.trim_start_matches('-').starts_with('1') || p % 2 == 0 { "1" } else { "7" };
                    let a2 = D::new(format!("{}{}{}", if a.is_neg() { "-" } else { "" }, lead, "0".repeat(k)), a.scale);
                    let bl = bint.trim_start_matches('-').len() as i64;
                    let off = (gap % 5) as i64 - 2;
                    let b2 = D::new(format!("{}{}", if a.is_neg() { "" } else { "-" }, bint.trim_start_matches('-')), a.scale + bl + off);
                    let p2 = (k as u64 + (gap % 3)).max(1); // k, k+1 or k+2 digits
                    return SumCase { a: a2, b: b2, p: (p2 - 1 + (gap % 2)).max(1), mode };
                }
                _ => D::new(bint, bscale),
            };
            SumCase { a, b, p, mode }
        })
        .boxed()
}

/// sums whose EXACT value has a designed tail at the p-th digit (tie, just above / below a tie, all nines, ...):
/// S is built from the tail families, a is random, b = S - a, so both operands are ordinary numbers whose digits overlap
fn designed_sum_strategy(max_len: usize) -> BoxedStrategy<SumCase> {
    (gen::digspec_shapes(max_len, TAIL_SHAPES), any::<bool>(), -300i64..=300, gen::sdigits(max_len), -40i64..=40, 0..7u8, 0..8u8, 0u64..=5)
        .prop_map(|(spec, neg, scale, aint, da, mode, where_, off)| {
            let digits = gen::digits_of(&spec);
            let nd = digits.len() as u64;
            let cut = gen::tail_cut(&spec);
            let p = match where_ {
                0..=4 => cut,
                5 => nd,
                6 => nd + 1 + off,
                _ => nd.saturating_sub(1).max(1),
            }
            .max(1);
            let s = Dec::from_str_int(&if neg && digits != "0" { format!("-{}", digits) } else { digits }, scale as i128);
            // a anywhere around S: same scale region, shifted by da digits
            let a = D::new(aint, scale + da);
            let b = s.sub(&a.dec());
            SumCase { a, b: D::new(b.int.to_string(), b.scale as i64), p, mode }
        })
        .boxed()
}

pub fn run(ctx: &Ctx) {
    let t = ctx.tier;
    let limit = t.pick(20_000u64, 600_000);
    ctx.enumerated(
        "small-exhaustive",
        "prec",
        small_total(limit),
        true,
        &format!("EXHAUSTIVE: every |n| < {} x scale {{-2,0,3}} x every p in 1..digits+5 x 7 modes", limit),
        move |i| small_case(i, limit),
        check_prec,
    );
    let max_len = t.pick(600usize, 3000);
    ctx.generated(
        "random-tails",
        "prec",
        t.pick(600_000, 10_000_000),
        "1..max digits; tie / near-tie / all-nines tails; p at the tail cut, = / -1 / +1..6 of the digit count, tiny, anywhere; scales incl. the i64 ends where the new scale stays representable; zeros; both signs",
        move || prec_strategy(max_len),
        check_prec,
    );
    ctx.generated("extreme-scales", "prec", t.pick(50_000, 500_000), "scales within 80 of i64::MIN / i64::MAX with p such that the resulting scale is representable", extreme_scale_strategy, check_prec);
    ctx.generated("context-sums-designed-tails", "sum", t.pick(300_000, 3_000_000), "a + b whose exact sum has a tie / near-tie / all-nines / zero tail at the p-th digit (b = S - a); p at the cut, = digits, above, below", move || designed_sum_strategy(max_len.min(300)), check_sum);
    ctx.generated("context-sums", "sum", t.pick(300_000, 5_000_000), "a + b rounded by Context::add_refs / add_refs_into: gaps 0..700, cancellations, all-nines carries, p in 1..120 (a quarter up to 900, beyond the digits of the sum)", move || sum_strategy(max_len.min(400)), check_sum);
}
