//! C13 — exp(x) is positive and accurate to its last digit for every argument.

use crate::conv::{build_cfg, dec_of};
use crate::engine::{Ctx, Verdict};
use crate::ensure;
use crate::gen::{self, D};
use bdoracle::expo::{judge, self_test, ExpVerdict};
use bdoracle::Dec;
use proptest::prelude::*;
use serde::{Deserialize, Serialize};
use std::cmp::Ordering;

pub const RULE: &str = "case = one argument x (or a pair x < y for the order check); exp(x) must be strictly positive, exactly 1 for x = 0 (any scale), and within one unit of the 100th significant digit of e^x, decided against a rigorous enclosure of e^x about 1e-60 units wide; for pairs exp(x) may exceed exp(y) by at most two units; non-trivial = x != 0; distinct = structural hash / enumerated integers";
pub const EXPLANATION: &str = "Oracle: outward-rounded interval arithmetic on big integers (argument halving, Taylor enclosure with remainder bound, interval squarings, reciprocal for x < 0), cross-validated against mpmath during development and self-tested at run time through e^a*e^-a containing 1 and e^(a+b) meeting e^a*e^b (a failing self-test exits 2, never 1). A case whose enclosure straddles the tolerance is counted inconclusive. The series loop is capped by the --cfg bigdecimal_verif hook. Domain: |x| <= 120 (quick) / 1000 (thorough), digits(x)*|x| bounded because the cost of the implementation grows with it.";

#[derive(Clone, Debug, Hash, Serialize, Deserialize)]
pub struct ExpArg {
    pub d: D,
}

pub fn check_exp(c: &ExpArg) -> Verdict {
    let p = build_cfg().precision;
    let x = c.d.bd();
    let mx = c.d.dec();
    let r = dec_of(&x.exp());
    let mut v = Verdict::pass(!mx.is_zero());
    if mx.is_zero() {
        ensure!(v, r.eq_val(&Dec::one()), "C13/exp-zero", "exp(0 with scale {}) = {}", c.d.scale, r.show());
        return v;
    }
    v.labels.push(if mx.signum() < 0 { "negative" } else { "positive" });
    let adj = mx.adjusted();
    v.labels.push(if adj <= -3 {
        "|x|<0.001"
    } else if adj <= 0 {
        "|x|<1"
    } else if adj <= 1 {
        "|x|<10"
    } else if adj <= 2 {
        "|x|<100"
    } else {
        "|x|>=100"
    });
    ensure!(v, r.signum() > 0, "C13/not-positive", "exp({}) = {} is not strictly positive", mx.show(), r.show());
    if v.fail.is_some() {
        return v;
    }
    // the result carries the default precision: p digits (p+1 only for a rounding carry into 10..0)
    let rd = bdoracle::dec::ndigits(&r.int);
    let carried = rd == p + 1 && r.canonical().int.magnitude() == &num_bigint::BigUint::from(1u8);
    if carried {
        v.labels.push("carried-into-power-of-ten");
    }
    {
        let digits = r.int.magnitude().to_string();
        let nines = digits.bytes().take_while(|b| *b == b'9').count();
        let zeros = digits.bytes().skip(1).take_while(|b| *b == b'0').count();
        if nines >= 90 || (digits.starts_with('1') && zeros >= 90) {
            v.labels.push("result-within-1e-90-of-a-power-of-ten");
        }
    }
    if c.d.ndigits() > 40 {
        v.labels.push("argument-longer-than-40-digits");
    }
    ensure!(v, rd == p || carried, "C13/digits", "exp({}) has {} significant digits, expected {}", mx.show(), rd, p);
    match judge(&mx, &r, p, 1) {
        (ExpVerdict::Within, _) => {}
        (ExpVerdict::Undecided, _) => return Verdict::inconclusive("enclosure straddles the tolerance"),
        (ExpVerdict::Outside { approx_units }, iv) => {
            ensure!(v, false, "C13/inaccurate", "exp({}) = {} is {:.3} units of digit {} away from e^x in [{}, {}]", mx.show(), r.show(), approx_units, p, iv.lo_dec().show(), iv.hi_dec().show());
        }
    }
    v
}

#[derive(Clone, Debug, Hash, Serialize, Deserialize)]
pub struct ExpPair {
    pub a: D,
    pub b: D,
}

pub fn check_pair(c: &ExpPair) -> Verdict {
    let p = build_cfg().precision;
    let (ma, mb) = (c.a.dec(), c.b.dec());
    let (lo, hi) = if ma.cmp_val(&mb) == Ordering::Greater { (&c.b, &c.a) } else { (&c.a, &c.b) };
    let (rl, rh) = (dec_of(&lo.bd().exp()), dec_of(&hi.bd().exp()));
    let mut v = Verdict::pass(!ma.eq_val(&mb));
    if rl.signum() <= 0 || rh.signum() <= 0 {
        return v.with_fail("C13/not-positive", format!("exp of {} / {} = {} / {}", lo.dec().show(), hi.dec().show(), rl.show(), rh.show()));
    }
    // exp(lo) - exp(hi) <= 2 units of the p-th digit (unit of the larger result)
    let adj = rl.adjusted().max(rh.adjusted());
    let two_units = Dec::new(num_bigint::BigInt::from(2), -(adj - p as i128));
    let diff = rl.sub(&rh);
    ensure!(v, diff.cmp_val(&two_units) != Ordering::Greater, "C13/order", "x < y but exp(x) - exp(y) = {} exceeds two units ({}): x = {}, y = {}", diff.show(), two_units.show(), lo.dec().show(), hi.dec().show());
    v
}

// ---------------------------------------------------------------- generators

// 150 digits of ln 10 (mpmath, checked again by the oracle enclosure of e^LN10 in the self-test)
const LN10: &str = "230258509299404568401799145468436420760110148862877297603332790096757260967735248023599720508959829834196778404228624863340952546508280675666628736909";

/// (digits, magnitude) bounded so that digits * |x| stays below `budget`
fn arg_strategy(max_abs: u32, budget: u64) -> BoxedStrategy<ExpArg> {
    // magnitudes: 40% |x| in 0.1..1000 (many series terms), 20% 1e-5..0.1, 25% 1e-60..1e-5, 15% below 1e-61
    // (1 + x rounds to 1.00..0 or 0.99..9 at the 100th digit)
    let mag = prop_oneof![8 => 0i32..=3, 4 => -5i32..=-1, 5 => -60i32..=-6, 3 => -130i32..=-61];
    (gen::udigits(40), any::<bool>(), mag, 0..20u8)
        .prop_map(move |(digits, neg, mag, zero)| {
            if zero == 0 {
                return ExpArg { d: D::new("0", mag as i64) };
            }
            let digits = if digits == "0" { "1".to_string() } else { digits };
            let nd = digits.len() as i64;
            // |x| in [10^(mag-1), 10^mag)
            let mut mag = mag as i64;
            let lim = (max_abs as f64).log10().ceil() as i64;
            if mag > lim {
                mag = lim;
            }
            let mut d = D::new(digits.clone(), nd - mag);
            // respect |x| <= max_abs and the cost budget
            let approx = |d: &D| -> f64 { format!("0.{}", d.int.trim_start_matches('-')).parse::<f64>().unwrap_or(1.0) * 10f64.powi((d.ndigits() as i64 - d.scale) as i32) };
            while approx(&d) > max_abs as f64 || approx(&d) * d.ndigits() as f64 > budget as f64 {
                if d.ndigits() > 3 && approx(&d) <= max_abs as f64 {
                    // shorten the digit string
                    let keep = d.ndigits() / 2;
                    let s = d.int[..keep].to_string();
                    d = D::new(s, d.scale - (d.ndigits() as i64 - keep as i64));
                } else {
                    d = D::new(d.int.clone(), d.scale + 1);
                }
            }
            if neg {
                d = d.negated();
            }
            ExpArg { d }
        })
        .boxed()
}

/// x = k*ln(10) +- eps: e^x crosses a power of ten
fn near_ln10_strategy(max_k: i64) -> BoxedStrategy<ExpArg> {
    (-max_k..=max_k, prop_oneof![8usize..=40, 100usize..=150], -9i64..=9, 3u32..=36, 95u32..=108)
        .prop_map(|(k, keep, d, j, j_long)| {
            // ln10 truncated to `keep` digits, times k, plus d * 10^-j; with 100+ digits of ln10 and j around 100
            // e^x = 10^k (1 + d*10^-j): the 100-digit result sits on either side of a power of ten (0.99..9x / 1.00..0x)
            let (k, j) = if keep >= 100 { (k % 13, j_long) } else { (k, j) };
            let l: num_bigint::BigInt = LN10[..keep].parse().unwrap();
            let scale = keep as i64 - 1;
            let v = Dec::new(l * k, scale as i128).add(&Dec::new(num_bigint::BigInt::from(d), j as i128));
            ExpArg { d: D::new(v.int.to_string(), v.scale as i64) }
        })
        .boxed()
}

/// long digit strings (41..max digits, every shape incl. all nines) with |x| < 10
fn long_digits_strategy(max_digits: usize) -> BoxedStrategy<ExpArg> {
    (gen::digspec(max_digits), any::<bool>(), -6i64..=2, 41usize..=160)
        .prop_map(|(spec, neg, mag, minlen)| {
            let mut digits = gen::digits_of(&spec);
            if digits == "0" {
                digits = "9".into();
            }
            // 10 <= |x| < 100: the cost grows with digits * |x|, keep those strings to 41..90 digits
            let minlen = if mag == 2 { minlen.min(90) } else { minlen };
            if mag == 2 && digits.len() > 90 {
                digits.truncate(90);
            }
            // stretch short strings by repetition so that the argument really is long
            let base = digits.clone();
            while digits.len() < minlen {
                digits.push_str(&base);
            }
            let nd = digits.len() as i64;
            ExpArg { d: D::new(if neg { format!("-{}", digits) } else { digits }, nd - mag) }
        })
        .boxed()
}

fn pair_strategy(max_abs: u32, budget: u64) -> BoxedStrategy<ExpPair> {
    (arg_strategy(max_abs, budget), 1i64..=9, 0i64..=110)
        .prop_map(|(a, d, j)| {
            // b = a + d * 10^(adj(a) - j): a nearby larger argument
            let ma = a.d.dec();
            let adj = if ma.is_zero() { 0 } else { ma.adjusted() };
            let mb = ma.add(&Dec::new(num_bigint::BigInt::from(d), j as i128 - adj));
            let mb = if bdoracle::dec::ndigits(&mb.int) > 45 { ma.add(&Dec::new(num_bigint::BigInt::from(d), 10 - adj)) } else { mb };
            ExpPair { a: a.d, b: D::new(mb.int.to_string(), mb.scale as i64) }
        })
        .boxed()
}

pub fn run(ctx: &Ctx) {
    let t = ctx.tier;
    // oracle self-test: an unsound oracle must never produce a VIOLATION
    if let crate::engine::RunMode::Normal = &*ctx.mode.lock().unwrap() {
        let st = [("1", 0i128, "-7", 1i128), ("-24", 0, "24", 0), ("1000", 0, "-999", 0), ("123456789", 12, "5", 40), ("-120", 0, "3", 0)];
        for (a, sa, b, sb) in st {
            if let Err(e) = self_test(&Dec::from_str_int(a, sa), &Dec::from_str_int(b, sb)) {
                eprintln!("C13: exp oracle self-test failed: {}", e);
                std::process::exit(2);
            }
        }
    }
    let max_int = t.pick(120i64, 1000);
    ctx.enumerated(
        "integers",
        "exp",
        (2 * max_int + 1) as u64,
        true,
        &format!("EXHAUSTIVE: every integer argument in -{}..{}", max_int, max_int),
        move |i| Some(ExpArg { d: D::new((i as i64 - max_int).to_string(), 0) }),
        check_exp,
    );
    ctx.enumerated(
        "halves-and-tenths",
        "exp",
        2 * 2401,
        true,
        "EXHAUSTIVE: k/10 and k/20... : every k in -1200..1200 at scale 1 (|x| <= 120) and scale 2 (|x| <= 12)",
        |i| Some(ExpArg { d: D::new((i as i64 % 2401 - 1200).to_string(), 1 + (i / 2401) as i64) }),
        check_exp,
    );
    ctx.enumerated(
        "integer-representations",
        "exp",
        241 * 4,
        true,
        "EXHAUSTIVE: every integer in -120..120 written with 3 and 40 trailing fractional zeros, as (10k, scale 1), and multiples of ten with a negative scale (12e1)",
        |i| {
            let k = i as i64 % 241 - 120;
            if k == 0 {
                return Some(ExpArg { d: D::new("0", [3, 40, 1, -1][(i / 241) as usize]) });
            }
            Some(ExpArg {
                d: match i / 241 {
                    0 => D::new(format!("{}000", k), 3),
                    1 => D::new(format!("{}{}", k, "0".repeat(40)), 40),
                    2 => D::new(format!("{}0", k), 1),
                    _ => {
                        if k % 10 != 0 || k == 0 {
                            return None;
                        }
                        D::new((k / 10).to_string(), -1)
                    }
                },
            })
        },
        check_exp,
    );
    {
        // every decade from 1e-320 up to the tier's limit x 10 mantissas x both signs, written with a positive and
        // (where the value is an integer) a negative scale: the series takes a different number of terms, and a
        // different alignment of 1 + x + x^2/2, in every decade
        let mants = ["1", "15", "17", "2", "25", "3", "3163", "5", "7", "99"];
        let top = t.pick(2i64, 3);
        let decades = (320 + top + 1) as u64;
        ctx.enumerated(
            "magnitude-sweep",
            "exp",
            decades * mants.len() as u64 * 2,
            true,
            &format!("EXHAUSTIVE: m * 10^e for every e in -320..={} x m in {{1, 1.5, 1.7, 2, 2.5, 3, 3.163, 5, 7, 9.9}} x both signs (|x| capped at the tier's limit)", top),
            move |i| {
                let mut j = i;
                let neg = j % 2 == 1;
                j /= 2;
                let m = mants[(j % mants.len() as u64) as usize];
                let e = (j / mants.len() as u64) as i64 - 320; // exponent of the leading digit
                // value = 0.m * 10^(e+1): digits m, scale = len(m) - 1 - e
                let scale = m.len() as i64 - 1 - e;
                let d = D::new(if neg { format!("-{}", m) } else { m.to_string() }, scale);
                // respect the tier's domain |x| <= 120 / 1000
                let lim = if top == 2 { 120.0 } else { 1000.0 };
                let approx: f64 = format!("{}e{}", m, -scale).parse().unwrap_or(f64::INFINITY);
                if approx > lim {
                    return None;
                }
                Some(ExpArg { d })
            },
            check_exp,
        );
    }
    let max_abs = t.pick(120u32, 1000);
    let budget = t.pick(4_000u64, 40_000);
    ctx.generated("random-arguments", "exp", t.pick(20_000, 100_000), "1..40-digit arguments with magnitudes 1e-130..max (40% in 0.1..max), both signs, zeros with a scale; digits*|x| bounded", move || arg_strategy(max_abs, budget), check_exp);
    ctx.generated("long-digit-strings", "exp", t.pick(3_000, 20_000), "arguments of 41..max digits (all shapes: random, all nines, near powers of two, ...) with |x| < 10, and of 41..90 digits with 10 <= |x| < 100", move || long_digits_strategy(t.pick(300, 1200)), check_exp);
    ctx.generated("near-k-ln10", "exp", t.pick(5_000, 12_000), "x = k*ln(10) (ln10 cut to 8..40 digits) +- d*10^-j: e^x next to a power of ten; half of the cases with 100..150 digits of ln10, |k| <= 12 and j in 95..108, so that the 100-digit result straddles the power of ten (carry into 10..0)", move || near_ln10_strategy(t.pick(50, 430)), check_exp);
    ctx.generated("order-pairs", "pair", t.pick(5_000, 20_000), "x and x + d*10^-j relative: exp must not decrease by more than two units", move || pair_strategy(max_abs.min(300), budget / 2), check_pair);
}
