//! C08 — division is correctly rounded and refuses a zero divisor in every form.

use crate::conv::{build_cfg, dec_of};
use crate::engine::{catch, Ctx, Verdict};
use crate::ensure;
use crate::gen::{self, D};
use bdoracle::quot::quotient_check;
use bdoracle::Dec;
use bigdecimal::BigDecimal;
use num_bigint::BigInt;
use num_traits::ToPrimitive;
use proptest::prelude::*;
use serde::{Deserialize, Serialize};
use std::convert::TryFrom;

pub const RULE: &str = "case = pair (a, b) of decimals, or (a, primitive integer), or (a, normal float bits); b != 0: quotient exact when it has <= P digits, else >= P digits within half a unit of its last place (ties away from zero), correctly signed, identical across the four ownership forms; primitive / float forms equal the decimal division of the converted operand (+-2: exact half; numerator 1 excluded); b == 0: every / and /= form must panic; non-trivial = inexact quotient or a terminating one with >= 2 digits, or a zero-divisor case; distinct = structural hash";
pub const EXPLANATION: &str = "Oracle is residual-based: |a - q*b| against |b|*ulp(q)/2 with exact model arithmetic; 'terminates within P digits' is decided by stripping factors 2 and 5 from the reduced denominator. P is the configured default precision (100). Generated: 1..2000 digits, any scales/signs, divisors 2^i*5^j (quotients terminating after 1..130 digits; three stage arms aimed at exactly P-3..P+3 digits), quotients with nines/zeros around the 100th digit (a = q*b + small), |a| << |b| and >>, equal integers at different scales, all ten integer types incl. 0, +-1, +-2, MIN, MAX, normal f32/f64 on either side.";

#[derive(Clone, Debug, Hash, Serialize, Deserialize)]
pub struct Pair {
    pub a: D,
    pub b: D,
}

fn check_quotient(v: &mut Verdict, what: &str, a: &Dec, b: &Dec, q: &BigDecimal, p: u64) -> Option<bdoracle::quot::QuotInfo> {
    match quotient_check(a, b, &dec_of(q), p) {
        Ok(i) => Some(i),
        Err(e) => {
            let kind = e.split(':').next().unwrap_or("bad").to_string();
            ensure!(v, false, format!("C08/{}:{}", kind, what), "{}: {} (a = {}, b = {}, q = {})", what, e, a.show(), b.show(), dec_of(q).show());
            None
        }
    }
}

pub fn check_pair(c: &Pair) -> Verdict {
    let p = build_cfg().precision;
    let (a, b) = (c.a.bd(), c.b.bd());
    let (ma, mb) = (c.a.dec(), c.b.dec());
    if mb.is_zero() {
        let mut v = Verdict::pass(true).label("zero-divisor");
        let forms: Vec<(&str, Box<dyn Fn() -> BigDecimal>)> = vec![
            ("BD/BD", Box::new(|| a.clone() / b.clone())),
            ("BD/&BD", Box::new(|| a.clone() / &b)),
            ("&BD/BD", Box::new(|| &a / b.clone())),
            ("&BD/&BD", Box::new(|| &a / &b)),
        ];
        for (name, f) in forms {
            let r = catch(|| f());
            ensure!(v, r.is_err(), format!("C08/zero-divisor-no-panic:{}", name), "{} with a zero decimal divisor returned {:?} instead of panicking", name, r.as_ref().ok().map(D::of));
        }
        return v;
    }
    let mut v = Verdict::pass(false);
    let q1 = a.clone() / b.clone();
    let q2 = a.clone() / &b;
    let q3 = &a / b.clone();
    let q4 = &a / &b;
    let r1 = q1.as_bigint_and_exponent();
    // "owned and borrowed forms agree exactly"
    for (name, q) in [("BD/&BD", &q2), ("&BD/BD", &q3), ("&BD/&BD", &q4)] {
        // "agree exactly": same digits and scale, not merely the same value
        ensure!(v, dec_of(q) == dec_of(&q1), format!("C08/forms-differ:{}", name), "{} = {} but BD/BD = {}", name, dec_of(q).show(), dec_of(&q1).show());
    }
    let _ = r1;
    if let Some(info) = check_quotient(&mut v, "BD/BD", &ma, &mb, &q1, p) {
        v.nontrivial = !info.must_be_exact || info.terminating.map(|n| n >= 2).unwrap_or(false);
        v.labels.push(match (info.must_be_exact, info.terminating) {
            (true, _) => "exact(<=P digits)",
            (false, Some(_)) => "terminating(>P digits)",
            (false, None) => "non-terminating",
        });
        if info.tie {
            v.labels.push("tie");
        }
        if let Some(n) = info.terminating {
            // quotients that end right at the precision: the exact / rounded boundary
            if n + 3 >= p && n <= p + 3 {
                v.labels.push(if n < p { "terminates-at-P-3..P-1" } else if n == p { "terminates-at-P" } else if n == p + 1 { "terminates-at-P+1" } else { "terminates-at-P+2..P+3" });
            }
        }
    }
    v
}

// ---------------------------------------------------------------- primitive forms

#[derive(Clone, Debug, Hash, Serialize, Deserialize)]
pub struct WithPrim {
    pub a: D,
    pub ty: u8,
    pub val: String,
}

/// result of one overload: Ok(value) or Err(panic message)
type R = Result<BigDecimal, String>;

macro_rules! int_div_forms {
    ($t:ty, $a:expr, $v:expr) => {{
        let a: &BigDecimal = $a;
        let v: $t = $v;
        let tn = stringify!($t);
        // (name, numerator_is_prim, is_assign, result)
        let mut out: Vec<(String, bool, bool, R)> = Vec::new();
        out.push((format!("BD/{}", tn), false, false, catch(|| a.clone() / v)));
        out.push((format!("&BD/{}", tn), false, false, catch(|| a / v)));
        out.push((format!("BD/&{}", tn), false, false, catch(|| a.clone() / &v)));
        out.push((format!("BD/={}", tn), false, true, catch(|| {
            let mut x = a.clone();
            x /= v;
            x
        })));
        out.push((format!("BD/=&{}", tn), false, true, catch(|| {
            let mut x = a.clone();
            x /= &v;
            x
        })));
        out.push((format!("{}/BD", tn), true, false, catch(|| v / a.clone())));
        out.push((format!("{}/&BD", tn), true, false, catch(|| v / a)));
        out.push((format!("&{}/BD", tn), true, false, catch(|| &v / a.clone())));
        out.push((format!("&{}/&BD", tn), true, false, catch(|| &v / a)));
        out
    }};
}

fn int_forms(a: &BigDecimal, ty: u8, n: &BigInt) -> Vec<(String, bool, bool, R)> {
    match ty {
        0 => int_div_forms!(u8, a, n.to_u8().unwrap()),
        1 => int_div_forms!(u16, a, n.to_u16().unwrap()),
        2 => int_div_forms!(u32, a, n.to_u32().unwrap()),
        3 => int_div_forms!(u64, a, n.to_u64().unwrap()),
        4 => int_div_forms!(u128, a, n.to_u128().unwrap()),
        5 => int_div_forms!(i8, a, n.to_i8().unwrap()),
        6 => int_div_forms!(i16, a, n.to_i16().unwrap()),
        7 => int_div_forms!(i32, a, n.to_i32().unwrap()),
        8 => int_div_forms!(i64, a, n.to_i64().unwrap()),
        _ => int_div_forms!(i128, a, n.to_i128().unwrap()),
    }
}

/// shared judgement of "decimal (op) primitive" forms against decimal division of the converted operand
fn judge_forms(v: &mut Verdict, a: &BigDecimal, ma: &Dec, conv: &BigDecimal, mconv: &Dec, forms: Vec<(String, bool, bool, R)>, p: u64) {
    let prim_is_zero = mconv.is_zero();
    let two = Dec::from_str_int("2", 0);
    let prim_is_pm2 = mconv.abs().eq_val(&two);
    let prim_is_one = mconv.eq_val(&Dec::one());
    for (name, prim_is_numerator, is_assign, r) in forms {
        if !prim_is_numerator {
            // a / prim
            if prim_is_zero {
                ensure!(v, r.is_err(), format!("C08/zero-divisor-no-panic:{}", name), "{} with a zero divisor returned {:?} instead of panicking", name, r.as_ref().ok().map(D::of));
                continue;
            }
            let got = match r {
                Ok(g) => g,
                Err(m) => {
                    ensure!(v, false, format!("C08/panic:{}", name), "{} panicked: {}", name, m);
                    continue;
                }
            };
            let g = dec_of(&got);
            if prim_is_pm2 {
                // "division by +-2 always returns the exact half": every form, /= included
                let half = if mconv.signum() > 0 { ma.half() } else { ma.half().neg() };
                let _ = is_assign;
                ensure!(v, g.eq_val(&half), format!("C08/half:{}", name), "{} = {} expected the exact half {}", name, g.show(), half.show());
                continue;
            }
            let want = dec_of(&(a.clone() / conv.clone()));
            ensure!(v, g.eq_val(&want), format!("C08/prim-differs:{}", name), "{} = {} but division by the converted decimal gives {}", name, g.show(), want.show());
            check_quotient(v, &name, ma, mconv, &got, p);
        } else {
            // prim / a
            if ma.is_zero() {
                ensure!(v, r.is_err(), format!("C08/zero-divisor-no-panic:{}", name), "{} with a zero decimal divisor returned {:?} instead of panicking", name, r.as_ref().ok().map(D::of));
                continue;
            }
            if prim_is_one {
                // routed to inverse(): covered by C12, excluded here exactly as the statement excludes it
                continue;
            }
            let got = match r {
                Ok(g) => g,
                Err(m) => {
                    ensure!(v, false, format!("C08/panic:{}", name), "{} panicked: {}", name, m);
                    continue;
                }
            };
            let g = dec_of(&got);
            let want = dec_of(&(conv.clone() / a.clone()));
            ensure!(v, g.eq_val(&want), format!("C08/prim-differs:{}", name), "{} = {} but division of the converted decimal gives {}", name, g.show(), want.show());
            check_quotient(v, &name, mconv, ma, &got, p);
        }
    }
}

pub fn check_prim(c: &WithPrim) -> Verdict {
    let p = build_cfg().precision;
    let n: BigInt = match c.val.parse() {
        Ok(n) => n,
        Err(_) => return Verdict::inconclusive("malformed primitive"),
    };
    let ty = c.ty % 10;
    let (lo, hi) = crate::props::c01::prim_bounds(ty);
    if n < lo || n > hi {
        return Verdict::inconclusive("primitive out of range for its type");
    }
    let a = c.a.bd();
    let ma = c.a.dec();
    let conv = BigDecimal::new(n.clone(), 0);
    let mconv = Dec::new(n.clone(), 0);
    let mut v = Verdict::pass(true);
    v.labels.push(crate::props::c01::PRIM_TYPES[ty as usize]);
    if n == BigInt::from(0) {
        v.labels.push("zero-divisor");
    }
    if n == lo || n == hi {
        v.labels.push("prim-extreme");
    }
    judge_forms(&mut v, &a, &ma, &conv, &mconv, int_forms(&a, ty, &n), p);
    v
}

#[derive(Clone, Debug, Hash, Serialize, Deserialize)]
pub struct WithFloat {
    pub a: D,
    pub is64: bool,
    pub bits: u64,
}

macro_rules! float_div_forms {
    ($t:ty, $a:expr, $v:expr) => {{
        let a: &BigDecimal = $a;
        let v: $t = $v;
        let tn = stringify!($t);
        let mut out: Vec<(String, bool, bool, R)> = Vec::new();
        out.push((format!("BD/{}", tn), false, false, catch(|| a.clone() / v)));
        out.push((format!("&BD/{}", tn), false, false, catch(|| a / v)));
        out.push((format!("BD/&{}", tn), false, false, catch(|| a.clone() / &v)));
        out.push((format!("BD/={}", tn), false, true, catch(|| {
            let mut x = a.clone();
            x /= v;
            x
        })));
        out.push((format!("BD/=&{}", tn), false, true, catch(|| {
            let mut x = a.clone();
            x /= &v;
            x
        })));
        out.push((format!("{}/BD", tn), true, false, catch(|| v / a.clone())));
        out.push((format!("{}/&BD", tn), true, false, catch(|| v / a)));
        out.push((format!("&{}/BD", tn), true, false, catch(|| &v / a.clone())));
        out.push((format!("&{}/&BD", tn), true, false, catch(|| &v / a)));
        out
    }};
}

pub fn check_float(c: &WithFloat) -> Verdict {
    let p = build_cfg().precision;
    let a = c.a.bd();
    let ma = c.a.dec();
    let (forms, mconv, normal) = if c.is64 {
        let f = f64::from_bits(c.bits);
        (float_div_forms!(f64, &a, f), bdoracle::floatbits::dec_of_f64_bits(c.bits), f.is_normal())
    } else {
        let f = f32::from_bits(c.bits as u32);
        (float_div_forms!(f32, &a, f), bdoracle::floatbits::dec_of_f32_bits(c.bits as u32), f.is_normal())
    };
    if !normal {
        return Verdict::inconclusive("non-normal float: outside the statement's domain");
    }
    let mconv = mconv.unwrap();
    // "the converted decimal" is what the library's own conversion produces (its representation
    // decides whether a >P-digit quotient comes back exact or rounded); its value is checked
    // against the exact binary value first, so a conversion defect is left to C14
    let conv = if c.is64 { BigDecimal::try_from(f64::from_bits(c.bits)).ok() } else { BigDecimal::try_from(f32::from_bits(c.bits as u32)).ok() };
    let conv = match conv {
        Some(x) if dec_of(&x).eq_val(&mconv) => x,
        _ => return Verdict::inconclusive("float conversion itself is wrong (reported by C14)"),
    };
    let mut v = Verdict::pass(true);
    v.labels.push(if c.is64 { "f64" } else { "f32" });
    judge_forms(&mut v, &a, &ma, &conv, &mconv, forms, p);
    v
}

// ---------------------------------------------------------------- generators

fn pair_strategy(max_len: usize) -> BoxedStrategy<Pair> {
    (gen::decimal(max_len, 3000), gen::decimal(max_len, 3000), 0..22u8, 0u32..=130, 0u32..=130, gen::sdigits(110), gen::sdigits(20))
        .prop_map(|(a, b, special, i, j, q, small)| {
            let b = if b.is_zero() && special != 0 { D::new("7", b.scale) } else { b };
            match special {
                0 => Pair { a, b: D::new("0", b.scale) }, // zero divisor
                1 | 2 => {
                    // divisor 2^i * 5^j: terminating quotient
                    let d = BigInt::from(2u8).pow(i) * BigInt::from(5u8).pow(j % 60);
                    Pair { a, b: D::new(d.to_string(), b.scale) }
                }
                3 | 4 => {
                    // quotient terminating near the 100-digit boundary: a = small odd, b = 2^i with i in 95..105 or 5^j
                    let k = 95 + (i % 11);
                    let d = if special == 3 { BigInt::from(2u8).pow(k) } else { BigInt::from(5u8).pow(k) };
                    Pair { a: D::new(if small == "0" { "1".into() } else { small }, a.scale), b: D::new(d.to_string(), b.scale) }
                }
                5 | 6 | 7 => {
                    // a = q*b + r with q ~100 digits ending in nines/zeros and tiny r: digits around the 100th are 99.. / 00..
                    let qi = crate::conv::bigint(&q);
                    let bi = b.bigint();
                    let r = crate::conv::bigint(&small) % &bi;
                    let prod = qi * &bi;
                    let ai = if special == 7 { prod - r } else { prod + r };
                    if ai == BigInt::from(0) {
                        Pair { a, b }
                    } else {
                        Pair { a: D::new(ai.to_string(), a.scale), b }
                    }
                }
                11 | 12 | 13 => {
                    // remainder next to half the divisor exactly at the rounding position:
                    // a = Q*b + r with Q of exactly P (or more) digits and r in {floor(b/2), ceil(b/2), +-1}
                    let p = build_cfg().precision as usize;
                    let mut qs = q.trim_start_matches('-').to_string();
                    if qs == "0" {
                        qs = "7".into();
                    }
                    let base = qs.clone();
                    while qs.len() < p {
                        qs.push_str(&base);
                    }
                    let qlen = if special == 13 { p + (i as usize % 30) } else { p };
                    qs.truncate(qlen.max(1));
                    let qi = crate::conv::bigint(&qs);
                    let bi = b.bigint();
                    let babs = if bi < BigInt::from(0) { -bi.clone() } else { bi.clone() };
                    let half: BigInt = &babs / 2;
                    let r = match j % 5 {
                        0 => half.clone(),
                        1 => &babs - &half, // ceil(b/2)
                        2 => &half - 1,
                        3 => &half + 1,
                        _ => (&babs - &half) + 1,
                    };
                    let r = if r < BigInt::from(0) || r >= babs { BigInt::from(0) } else { r };
                    let ai = qi * &babs + r;
                    let ai = if (i + j) % 2 == 1 { -ai } else { ai };
                    Pair { a: D::new(ai.to_string(), a.scale), b }
                }
                14 | 15 | 16 => {
                    // quotient terminating after exactly P-3..P+3 digits: a = Q*b with Q of that length, last digit non-zero
                    // (special 16: b = 2^i 5^j, so that a itself is short and the digits come out of the division loop)
                    let p = build_cfg().precision as usize;
                    let want_len = (p + (i as usize % 7)).saturating_sub(3).max(1);
                    if special == 16 {
                        // a / 2^k has digits(a * 5^k) digits: pick a to land on want_len
                        let k = 20 + (j % 60);
                        let five_k = BigInt::from(5u8).pow(k);
                        let have = five_k.to_string().len();
                        let alen = want_len.saturating_sub(have).max(1);
                        let mut qs = q.trim_start_matches('-').to_string();
                        while qs.len() < alen {
                            qs.push('7');
                        }
                        qs.truncate(alen);
                        // odd and not a multiple of five, so no factor cancels
                        let last = ["1", "3", "7", "9"][(i % 4) as usize];
                        qs.pop();
                        qs.push_str(last);
                        let qs = qs.trim_start_matches('0').to_string();
                        return Pair { a: D::new(if qs.is_empty() { "3".into() } else { qs }, a.scale), b: D::new((BigInt::from(1u8) << k as usize).to_string(), b.scale) };
                    }
                    let mut qs = q.trim_start_matches('-').to_string();
                    if qs == "0" {
                        qs = "3".into();
                    }
                    let base = qs.clone();
                    while qs.len() < want_len {
                        qs.push_str(&base);
                    }
                    qs.truncate(want_len);
                    if qs.ends_with('0') {
                        qs.pop();
                        qs.push('7');
                    }
                    let ai = crate::conv::bigint(&qs) * b.bigint();
                    Pair { a: D::new(ai.to_string(), a.scale), b }
                }
                17 => {
                    // equal magnitudes, opposite signs, different scales
                    let n = b.negated();
                    Pair { a: D::new(n.int, a.scale), b }
                }
                18 | 19 => {
                    // divisor of value +-one or a power of ten, not in canonical form: 1.000, 10e-1, 1000e2
                    let z = (i % 40) as usize;
                    let sc = if special == 18 { z as i64 } else { (j as i64 % 80) - 40 };
                    Pair { a, b: D::new(format!("{}1{}", if j % 2 == 0 { "" } else { "-" }, "0".repeat(z)), sc) }
                }
                8 => Pair { a: D::new(b.int.clone(), a.scale), b }, // equal unscaled integers, different scales
                9 => Pair { a: D::new(small, a.scale), b },           // |a| << |b|
                10 => Pair { a, b: D::new(if small == "0" { "3".into() } else { small }, b.scale) }, // |a| >> |b|
                _ => Pair { a, b },
            }
        })
        .boxed()
}

fn prim_value(ty: u8, sel: u8, raw: u128) -> BigInt {
    let (lo, hi) = crate::props::c01::prim_bounds(ty);
    let span: BigInt = &hi - &lo + 1;
    let cand = [BigInt::from(0), BigInt::from(1), BigInt::from(-1), BigInt::from(2), BigInt::from(-2), lo.clone(), hi.clone(), BigInt::from(3), BigInt::from(10), BigInt::from(7), &hi - 1, &lo + 1, &hi - 2];
    let v = if (sel as usize) < cand.len() { cand[sel as usize].clone() } else { &lo + (BigInt::from(raw) % &span) };
    v.max(lo).min(hi)
}

fn prim_strategy(max_len: usize) -> BoxedStrategy<WithPrim> {
    (gen::decimal(max_len, 300), 0..10u8, 0..24u8, any::<u128>(), 0..10u8)
        .prop_map(|(a, ty, sel, raw, azero)| {
            let a = if azero == 0 { D::new("0", a.scale) } else { a };
            WithPrim { a, ty, val: prim_value(ty, sel, raw).to_string() }
        })
        .boxed()
}

fn float_strategy(max_len: usize) -> BoxedStrategy<WithFloat> {
    (gen::decimal(max_len, 300), any::<bool>(), any::<u64>(), 0..12u8)
        .prop_map(|(a, is64, raw, sel)| {
            let bits = if is64 {
                match sel {
                    0 => 1.0f64.to_bits(),
                    1 => (-1.0f64).to_bits(),
                    2 => 2.0f64.to_bits(),
                    3 => (-2.0f64).to_bits(),
                    4 => 0.1f64.to_bits(),
                    5 => 3.0f64.to_bits(),
                    6 => 1e10f64.to_bits(),
                    // moderate exponents so the exact conversion stays short
                    7 => (raw & 0x800f_ffff_ffff_ffff) | ((1 + (raw >> 52) % 2046) << 52), // any normal exponent
                    8 => [f64::MAX, f64::MIN_POSITIVE, 1e300, 1e-300, -f64::MAX, f64::EPSILON][(raw % 6) as usize].to_bits(),
                    _ => (raw & 0x800f_ffff_ffff_ffff) | (((1023 - 40 + (raw >> 52) % 80) & 0x7ff) << 52),
                }
            } else {
                let r = raw as u32;
                (match sel {
                    0 => 1.0f32.to_bits(),
                    1 => (-1.0f32).to_bits(),
                    2 => 2.0f32.to_bits(),
                    3 => (-2.0f32).to_bits(),
                    4 => 0.1f32.to_bits(),
                    5 => 3.0f32.to_bits(),
                    7 => (r & 0x807f_ffff) | ((1 + (r >> 23) % 254) << 23), // any normal exponent
                    8 => [f32::MAX, f32::MIN_POSITIVE, 1e30, 1e-30, -f32::MAX, f32::EPSILON][(r % 6) as usize].to_bits(),
                    _ => (r & 0x807f_ffff) | (((127 - 30 + (r >> 23) % 60) & 0xff) << 23),
                }) as u64
            };
            WithFloat { a, is64, bits }
        })
        .boxed()
}

pub fn run(ctx: &Ctx) {
    let t = ctx.tier;
    // full zero-divisor / special-value matrix
    ctx.enumerated(
        "prim-matrix",
        "prim",
        10 * 13 * 6,
        true,
        "EXHAUSTIVE: 10 integer types x {0, 1, -1, 2, -2, MIN, MAX, 3, 10, 7, MAX-1, MIN+1, MAX-2} x 6 decimals (incl. zero and >100-digit values); 9 overloads each (/, /=, & forms, primitive numerator)",
        |i| {
            let ty = (i % 10) as u8;
            let sel = ((i / 10) % 13) as u8;
            let which = i / 130;
            let a = match which {
                0 => D::new("0", 3),
                1 => D::new("1", 0),
                2 => D::new("-12345", 2),
                3 => D::new("7".repeat(120), 40),
                4 => D::new(format!("-{}3", "9".repeat(130)), -5),
                _ => D::new("100", 2),
            };
            Some(WithPrim { a, ty, val: prim_value(ty, sel, 0).to_string() })
        },
        check_prim,
    );
    ctx.enumerated(
        "small-exhaustive",
        "pair",
        401 * 401,
        true,
        "EXHAUSTIVE: a, b in -200..200 at scales (1, 0) (b = 0 must panic)",
        |i| Some(Pair { a: D::new((i as i64 / 401 - 200).to_string(), 1), b: D::new((i as i64 % 401 - 200).to_string(), 0) }),
        check_pair,
    );
    let max_len = t.pick(300usize, 2000);
    ctx.generated("random-pairs", "pair", t.pick(600_000, 6_000_000), "1..max digits, any scales/signs; divisors 2^i*5^j; terminating near 100 digits; a = q*b +- r with long q; equal integers (also with opposite signs); divisors of value +-1 / 10^k in non-canonical form; quotients terminating after exactly P-3..P+3 digits; |a| << / >> |b|; remainders next to half the divisor at the rounding position (a = Q*b + b/2 +- 1 with Q of P digits); zero divisors", move || pair_strategy(max_len), check_pair);
    ctx.generated("random-prims", "prim", t.pick(200_000, 2_000_000), "random decimal x primitive integer of random type (specials 0, +-1, +-2, MIN, MAX), 9 overloads each", move || prim_strategy(max_len.min(150)), check_prim);
    ctx.generated("random-floats", "float", t.pick(150_000, 2_000_000), "random decimal x normal f32/f64 (specials +-1, +-2, 0.1, 3, 1e10; exponents mostly within +-40, one case in six anywhere in the normal range incl. MAX / MIN_POSITIVE), 9 overloads each", move || float_strategy(max_len.min(150)), check_float);
}
