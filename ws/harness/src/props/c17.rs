//! C17 — serde round-trips every decimal; JSON numbers are read digit for digit.

use crate::conv::{build_cfg, dec_of};
use crate::engine::{Ctx, Verdict};
use crate::ensure;
use crate::gen::{self, D};
use bdoracle::numeral::{is_json_number, parse_reference};
use bdoracle::Dec;
use bigdecimal::BigDecimal;
use proptest::prelude::*;
use serde::de::value::{Error as ValueError, F32Deserializer, F64Deserializer, I128Deserializer, I16Deserializer, I32Deserializer, I64Deserializer, I8Deserializer, U128Deserializer, U16Deserializer, U32Deserializer, U64Deserializer, U8Deserializer};
use serde::ser::Impossible;
use serde::{Deserialize, Serialize, Serializer};

pub const RULE: &str = "case = one decimal (serialize -> deserialize through the string form, serde_json::Value, json_num and json_num_option in a derived struct), or one JSON number text / numeric string (must deserialize to the reference evaluator's (int, scale) digit for digit, malformed or out-of-limit input must be an error, never a panic), or one primitive handed over by a serde value deserializer (exact conversion); non-trivial = non-integer or exponent-bearing number, or a primitive extreme; distinct = structural hash";
pub const EXPLANATION: &str = "Round-trip and differential oracles: Display text observed through a recording Serializer (exactly one collect_str/serialize_str call), values compared with the exact model, JSON texts evaluated by the reference numeral evaluator (never through binary floating point). The scale limit of the JSON adapters is taken from the build environment. Both build flavours; a panic is a violation.";

#[derive(Serialize, Deserialize)]
struct WNum {
    #[serde(with = "bigdecimal::serde::json_num")]
    v: BigDecimal,
}

#[derive(Serialize, Deserialize)]
struct WOpt {
    #[serde(with = "bigdecimal::serde::json_num_option")]
    v: Option<BigDecimal>,
}

// ---- a serializer that records the single string it is handed -----------------------------

struct Rec;

#[derive(Debug)]
struct RecErr(String);
impl std::fmt::Display for RecErr {
    fn fmt(&self, f: &mut std::fmt::Formatter) -> std::fmt::Result {
        write!(f, "{}", self.0)
    }
}
impl std::error::Error for RecErr {}
impl serde::ser::Error for RecErr {
    fn custom<T: std::fmt::Display>(m: T) -> Self {
        RecErr(m.to_string())
    }
}

macro_rules! reject {
    ($($name:ident($t:ty)),*) => {
        $(fn $name(self, _v: $t) -> Result<String, RecErr> { Err(RecErr(concat!("unexpected ", stringify!($name)).into())) })*
    };
}

impl Serializer for Rec {
    type Ok = String;
    type Error = RecErr;
    type SerializeSeq = Impossible<String, RecErr>;
    type SerializeTuple = Impossible<String, RecErr>;
    type SerializeTupleStruct = Impossible<String, RecErr>;
    type SerializeTupleVariant = Impossible<String, RecErr>;
    type SerializeMap = Impossible<String, RecErr>;
    type SerializeStruct = Impossible<String, RecErr>;
    type SerializeStructVariant = Impossible<String, RecErr>;
    reject!(serialize_bool(bool), serialize_i8(i8), serialize_i16(i16), serialize_i32(i32), serialize_i64(i64), serialize_u8(u8), serialize_u16(u16), serialize_u32(u32), serialize_u64(u64), serialize_f32(f32), serialize_f64(f64), serialize_char(char), serialize_bytes(&[u8]));
    fn serialize_str(self, v: &str) -> Result<String, RecErr> {
        Ok(v.to_string())
    }
    fn serialize_none(self) -> Result<String, RecErr> {
        Err(RecErr("unexpected none".into()))
    }
    fn serialize_some<T: ?Sized + Serialize>(self, _: &T) -> Result<String, RecErr> {
        Err(RecErr("unexpected some".into()))
    }
    fn serialize_unit(self) -> Result<String, RecErr> {
        Err(RecErr("unexpected unit".into()))
    }
    fn serialize_unit_struct(self, _: &'static str) -> Result<String, RecErr> {
        Err(RecErr("unexpected unit struct".into()))
    }
    fn serialize_unit_variant(self, _: &'static str, _: u32, _: &'static str) -> Result<String, RecErr> {
        Err(RecErr("unexpected unit variant".into()))
    }
    fn serialize_newtype_struct<T: ?Sized + Serialize>(self, _: &'static str, _: &T) -> Result<String, RecErr> {
        Err(RecErr("unexpected newtype struct".into()))
    }
    fn serialize_newtype_variant<T: ?Sized + Serialize>(self, _: &'static str, _: u32, _: &'static str, _: &T) -> Result<String, RecErr> {
        Err(RecErr("unexpected newtype variant".into()))
    }
    fn serialize_seq(self, _: Option<usize>) -> Result<Self::SerializeSeq, RecErr> {
        Err(RecErr("unexpected seq".into()))
    }
    fn serialize_tuple(self, _: usize) -> Result<Self::SerializeTuple, RecErr> {
        Err(RecErr("unexpected tuple".into()))
    }
    fn serialize_tuple_struct(self, _: &'static str, _: usize) -> Result<Self::SerializeTupleStruct, RecErr> {
        Err(RecErr("unexpected tuple struct".into()))
    }
    fn serialize_tuple_variant(self, _: &'static str, _: u32, _: &'static str, _: usize) -> Result<Self::SerializeTupleVariant, RecErr> {
        Err(RecErr("unexpected tuple variant".into()))
    }
    fn serialize_map(self, _: Option<usize>) -> Result<Self::SerializeMap, RecErr> {
        Err(RecErr("unexpected map".into()))
    }
    fn serialize_struct(self, _: &'static str, _: usize) -> Result<Self::SerializeStruct, RecErr> {
        Err(RecErr("unexpected struct".into()))
    }
    fn serialize_struct_variant(self, _: &'static str, _: u32, _: &'static str, _: usize) -> Result<Self::SerializeStructVariant, RecErr> {
        Err(RecErr("unexpected struct variant".into()))
    }
}

// ---------------------------------------------------------------- decimal round trips

#[derive(Clone, Debug, Hash, Serialize, Deserialize)]
pub struct Val {
    pub d: D,
}

pub fn check_val(c: &Val) -> Verdict {
    let cfg = build_cfg();
    let x = c.d.bd();
    let m = c.d.dec();
    let scale = c.d.scale as i128;
    let disp = x.to_string();
    let mut v = Verdict::pass(scale != 0 || disp.contains('e') || disp.contains('E'));
    v.labels.push(if disp.contains('E') {
        "display-scientific"
    } else if disp.contains('e') {
        "display-dotless-exponent"
    } else {
        "display-plain"
    });
    let show = |s: &str| crate::engine::truncate(s, 120);
    // Display preserves digits and scale except where it zero-pads an integer
    let padded = scale < 0 && -scale <= cfg.upper as i128;
    // 1. recording serializer: exactly the Display text
    match x.serialize(Rec) {
        Ok(s) => ensure!(v, s == disp, "C17/serialize-not-display", "Serialize emitted {:?} but Display is {:?}", show(&s), show(&disp)),
        Err(e) => ensure!(v, false, "C17/serialize-not-a-string", "Serialize did not emit a single string: {}", e),
    }
    // 2. serde_json string form
    match serde_json::to_string(&x) {
        Err(e) => ensure!(v, false, "C17/to_string-failed", "serde_json::to_string failed: {}", e),
        Ok(js) => match serde_json::from_str::<BigDecimal>(&js) {
            Err(e) => ensure!(v, false, "C17/string-roundtrip-failed", "from_str({}) failed: {}", show(&js), e),
            Ok(y) => {
                let g = dec_of(&y);
                ensure!(v, g.eq_val(&m), "C17/string-roundtrip-value", "string form {} came back as {} instead of {}", show(&js), g.show(), m.show());
                if !padded {
                    ensure!(v, g == m, "C17/string-roundtrip-repr", "string form {} came back as {} instead of {}", show(&js), g.show(), m.show());
                }
            }
        },
    }
    // 3. serde_json::Value
    match serde_json::to_value(&x) {
        Err(e) => ensure!(v, false, "C17/to_value-failed", "to_value failed: {}", e),
        Ok(val) => {
            ensure!(v, val.as_str() == Some(disp.as_str()), "C17/to_value-not-display", "to_value gave {}", show(&val.to_string()));
            match serde_json::from_value::<BigDecimal>(val) {
                Err(e) => ensure!(v, false, "C17/value-roundtrip-failed", "from_value failed: {}", e),
                Ok(y) => ensure!(v, dec_of(&y).eq_val(&m), "C17/value-roundtrip-value", "Value form came back as {}", dec_of(&y).show()),
            }
        }
    }
    // 4. JSON-number adapter inside a derived struct
    let within_limit = scale.abs() <= cfg.serde_limit as i128 || cfg.serde_limit == 0;
    match serde_json::to_string(&WNum { v: x.clone() }) {
        Err(e) => ensure!(v, false, "C17/json_num-serialize-failed", "json_num::serialize of {} failed: {}", m.show(), e),
        Ok(js) => {
            let inner = js.strip_prefix("{\"v\":").and_then(|r| r.strip_suffix('}')).unwrap_or("");
            ensure!(v, is_json_number(inner.as_bytes()), "C17/json_num-not-a-number", "json_num emitted {} which is not a JSON number", show(&js));
            match parse_reference(inner.as_bytes()) {
                Some((i, s)) => ensure!(v, bdoracle::Dec::new(i, s as i128).eq_val(&m), "C17/json_num-wrong-value", "json_num emitted {} for {}", show(inner), m.show()),
                None => ensure!(v, false, "C17/json_num-not-a-number", "json_num emitted {} which the reference evaluator rejects", show(inner)),
            }
            let back = serde_json::from_str::<WNum>(&js);
            // the scale that the deserializer sees is the one of the emitted text
            let emitted_scale = parse_reference(inner.as_bytes()).map(|(_, s)| s as i128);
            let emitted_within = emitted_scale.map(|s| s.abs() <= cfg.serde_limit as i128 || cfg.serde_limit == 0).unwrap_or(true);
            match back {
                Ok(w) => {
                    ensure!(v, dec_of(&w.v).eq_val(&m), "C17/json_num-roundtrip-value", "json_num round trip of {} gave {}", m.show(), dec_of(&w.v).show());
                    ensure!(v, emitted_within, "C17/json_num-limit-not-enforced", "json_num accepted {} although its scale exceeds the limit {}", show(&js), cfg.serde_limit);
                }
                Err(e) => ensure!(v, !emitted_within, "C17/json_num-roundtrip-failed", "json_num could not read back its own output {}: {}", show(&js), e),
            }
            if !within_limit {
                v.labels.push("beyond-scale-limit");
            }
        }
    }
    // 4b. the same adapter through serde_json::Value (dynamically typed JSON)
    // serde_json itself cannot carry every number through a Value: when the f64 nearest to the text has
    // two shortest decimal forms (an exact tie such as 792281879675064.3 vs .2) it accepts the text
    // because one formatter reproduces it and then rebuilds the number with the other. A Number that does
    // not survive Number -> Value -> Number unchanged is outside what the adapters can be asked to preserve.
    let transport_ok = |val: &serde_json::Value| -> bool {
        match val.get("v") {
            Some(inner @ serde_json::Value::Number(n)) => serde_json::from_value::<serde_json::Number>(inner.clone()).map(|n2| same_number_value(&n2.to_string(), &n.to_string())).unwrap_or(false),
            _ => true,
        }
    };
    if within_limit {
        match serde_json::to_value(&WNum { v: x.clone() }) {
            Err(e) => ensure!(v, false, "C17/json_num-to_value-failed", "to_value through json_num failed for {}: {}", m.show(), e),
            Ok(val) if !transport_ok(&val) => v.labels.push("serde_json-value-transport-lossy"),
            Ok(val) => match serde_json::from_value::<WNum>(val.clone()) {
                Ok(w) => ensure!(v, dec_of(&w.v).eq_val(&m), "C17/json_num-value-roundtrip", "json_num round trip through serde_json::Value of {} gave {} (document {})", m.show(), dec_of(&w.v).show(), show(&val.to_string())),
                Err(e) => ensure!(v, false, "C17/json_num-value-roundtrip-failed", "json_num could not read back the Value {}: {}", show(&val.to_string()), e),
            },
        }
        match serde_json::to_value(&WOpt { v: Some(x.clone()) }) {
            Err(e) => ensure!(v, false, "C17/json_num_option-to_value-failed", "to_value through json_num_option failed for {}: {}", m.show(), e),
            Ok(val) if !transport_ok(&val) => {}
            Ok(val) => match serde_json::from_value::<WOpt>(val.clone()) {
                Ok(w) => ensure!(v, w.v.as_ref().map(|y| dec_of(y).eq_val(&m)) == Some(true), "C17/json_num_option-value-roundtrip", "json_num_option round trip through serde_json::Value of {} gave {:?}", m.show(), w.v.as_ref().map(|y| dec_of(y).show())),
                Err(e) => ensure!(v, false, "C17/json_num_option-value-roundtrip-failed", "json_num_option could not read back the Value {}: {}", show(&val.to_string()), e),
            },
        }
    }
    // 5. Option adapter
    match serde_json::to_string(&WOpt { v: Some(x.clone()) }) {
        Err(e) => ensure!(v, false, "C17/json_num_option-serialize-failed", "json_num_option::serialize of {} failed: {}", m.show(), e),
        Ok(js) => {
            let inner = js.strip_prefix("{\"v\":").and_then(|r| r.strip_suffix('}')).unwrap_or("");
            let emitted_within = parse_reference(inner.as_bytes()).map(|(_, s)| cfg.serde_limit == 0 || (s as i128).abs() <= cfg.serde_limit as i128).unwrap_or(true);
            match serde_json::from_str::<WOpt>(&js) {
                Ok(w) => {
                    ensure!(v, w.v.as_ref().map(|y| dec_of(y).eq_val(&m)) == Some(true), "C17/json_num_option-roundtrip-value", "json_num_option round trip of {} gave {:?}", m.show(), w.v.as_ref().map(|y| dec_of(y).show()));
                    ensure!(v, emitted_within, "C17/json_num_option-limit-not-enforced", "json_num_option accepted {} although its scale exceeds the limit {}", show(&js), cfg.serde_limit);
                }
                Err(e) => ensure!(v, !emitted_within, "C17/json_num_option-roundtrip-failed", "json_num_option could not read back {}: {}", show(&js), e),
            }
        }
    }
    v
}

/// do two JSON number texts denote the same value (reference evaluator, exact comparison)?
fn same_number_value(a: &str, b: &str) -> bool {
    match (parse_reference(a.as_bytes()), parse_reference(b.as_bytes())) {
        (Some((ia, sa)), Some((ib, sb))) => Dec::new(ia, sa as i128).eq_val(&Dec::new(ib, sb as i128)),
        _ => false,
    }
}

pub fn check_null() -> Result<(), String> {
    let js = serde_json::to_string(&WOpt { v: None }).map_err(|e| e.to_string())?;
    if js != "{\"v\":null}" {
        return Err(format!("None serialized as {}", js));
    }
    let w: WOpt = serde_json::from_str("{\"v\":null}").map_err(|e| e.to_string())?;
    if w.v.is_some() {
        return Err("null deserialized to Some".into());
    }
    Ok(())
}

// ---------------------------------------------------------------- JSON texts

#[derive(Clone, Debug, Hash, Serialize, Deserialize)]
pub struct JsonText {
    pub text: String,
}

pub fn check_text(c: &JsonText) -> Verdict {
    let cfg = build_cfg();
    let t = &c.text;
    let is_num = is_json_number(t.as_bytes());
    let reference = parse_reference(t.as_bytes());
    let mut v = Verdict::pass(t.contains('.') || t.contains('e') || t.contains('E'));
    v.labels.push(if is_num { "json-number" } else { "not-a-json-number" });
    let show = |s: &str| crate::engine::truncate(s, 120);
    let same = |y: &BigDecimal, r: &(num_bigint::BigInt, i64)| y.as_bigint_and_exponent() == *r;
    // as a JSON number
    let r = serde_json::from_str::<BigDecimal>(t);
    if is_num {
        match (&r, &reference) {
            (Ok(y), Some(w)) => ensure!(v, same(y, w), "C17/number-not-digit-for-digit", "JSON number {} read as {:?} expected ({}, {})", show(t), D::of(y), w.0, w.1),
            (Ok(y), None) => ensure!(v, false, "C17/number-out-of-range-accepted", "JSON number {} (scale outside i64) read as {:?}", show(t), D::of(y)),
            (Err(e), Some(_)) => ensure!(v, false, "C17/number-rejected", "JSON number {} rejected: {}", show(t), e),
            (Err(_), None) => {}
        }
    } else if let (Ok(y), Some(w)) = (&r, &reference) {
        // serde_json accepted something outside RFC 8259 (its business); the value must still be right
        ensure!(v, same(y, w), "C17/number-not-digit-for-digit", "text {} read as {:?}", show(t), D::of(y));
    }
    // as a numeric string
    let quoted = serde_json::to_string(t).unwrap();
    let rs = serde_json::from_str::<BigDecimal>(&quoted);
    match (&rs, &reference) {
        (Ok(y), Some(w)) => ensure!(v, same(y, w), "C17/string-not-digit-for-digit", "numeric string {} read as {:?} expected ({}, {})", show(t), D::of(y), w.0, w.1),
        (Ok(y), None) => ensure!(v, false, "C17/string-non-numeral-accepted", "string {} read as {:?}", show(t), D::of(y)),
        (Err(e), Some(_)) => ensure!(v, false, "C17/string-rejected", "numeric string {} rejected: {}", show(t), e),
        (Err(_), None) => {}
    }
    // through the JSON-number adapter (with its scale limit)
    if is_num {
        let doc = format!("{{\"v\":{}}}", t);
        let r = serde_json::from_str::<WNum>(&doc);
        let ro = serde_json::from_str::<WOpt>(&doc);
        match &reference {
            Some(w) => {
                let within = cfg.serde_limit == 0 || (w.1 as i128).abs() <= cfg.serde_limit as i128;
                match &r {
                    Ok(y) => {
                        ensure!(v, within, "C17/json_num-limit-not-enforced", "json_num accepted {} with scale {}", show(t), w.1);
                        ensure!(v, same(&y.v, w), "C17/json_num-not-digit-for-digit", "json_num read {} as {:?}", show(t), D::of(&y.v));
                    }
                    Err(e) => ensure!(v, !within, "C17/json_num-rejected", "json_num rejected {}: {}", show(t), e),
                }
                if let Ok(WOpt { v: Some(y) }) = &ro {
                    ensure!(v, within, "C17/json_num_option-limit-not-enforced", "json_num_option accepted {} with scale {}", show(t), w.1);
                    ensure!(v, same(y, w), "C17/json_num_option-not-digit-for-digit", "json_num_option read {} as {:?}", show(t), D::of(y));
                } else if within {
                    ensure!(v, false, "C17/json_num_option-rejected", "json_num_option rejected or dropped {}", show(t));
                }
                // the same JSON number held in a serde_json::Value
                if within && t.len() <= 400 {
                    let parsed = serde_json::from_str::<serde_json::Value>(t).ok();
                    // skip numbers that serde_json itself does not carry through a Value unchanged (see check_val)
                    let transport_ok = parsed.as_ref().map(|val| serde_json::from_value::<serde_json::Number>(val.clone()).map(|n2| same_number_value(&n2.to_string(), &val.to_string())).unwrap_or(false)).unwrap_or(false);
                    if !transport_ok && parsed.is_some() {
                        v.labels.push("serde_json-value-transport-lossy");
                    }
                    if let (true, Some(val)) = (transport_ok, parsed) {
                        let wv = Dec::new(w.0.clone(), w.1 as i128);
                        let doc = serde_json::json!({ "v": val.clone() });
                        match serde_json::from_value::<WNum>(doc.clone()) {
                            Ok(y) => ensure!(v, dec_of(&y.v).eq_val(&wv), "C17/json_num-value-number", "json_num read the Value number {} as {}", show(t), dec_of(&y.v).show()),
                            Err(e) => ensure!(v, false, "C17/json_num-value-number-rejected", "json_num rejected the Value number {}: {}", show(t), e),
                        }
                        match serde_json::from_value::<WOpt>(doc) {
                            Ok(WOpt { v: Some(y) }) => ensure!(v, dec_of(&y).eq_val(&wv), "C17/json_num_option-value-number", "json_num_option read the Value number {} as {}", show(t), dec_of(&y).show()),
                            _ => ensure!(v, false, "C17/json_num_option-value-number-rejected", "json_num_option rejected or dropped the Value number {}", show(t)),
                        }
                        // plain BigDecimal from a Value number: serde_json hands short numbers over as f64 and the
                        // visitor must convert floats exactly, so the binary expansion comes back (recorded finding)
                        match serde_json::from_value::<BigDecimal>(val) {
                            Ok(y) => {
                                let got = dec_of(&y);
                                if !got.eq_val(&wv) {
                                    let through_f64 = t.parse::<f64>().ok().and_then(|f| bdoracle::floatbits::dec_of_f64_bits(f.to_bits())).map(|d| d.eq_val(&got)).unwrap_or(false);
                                    let sig = if through_f64 { "C17/value-number-through-f64" } else { "C17/value-number-wrong" };
                                    ensure!(v, false, sig, "BigDecimal read from the Value number {} is {}", show(t), got.show());
                                }
                            }
                            Err(e) => ensure!(v, false, "C17/value-number-rejected", "BigDecimal rejected the Value number {}: {}", show(t), e),
                        }
                    }
                }
            }
            None => {
                ensure!(v, r.is_err(), "C17/number-out-of-range-accepted", "json_num accepted {} whose scale is outside i64", show(t));
                ensure!(v, ro.is_err(), "C17/number-out-of-range-accepted-option", "json_num_option returned {:?} for {} whose scale is outside i64", ro.as_ref().ok().map(|w| w.v.as_ref().map(D::of)), show(t));
            }
        }
    }
    v
}

// ---------------------------------------------------------------- input that is not a number

/// `what`: 0 = JSON document read as BigDecimal, 1 = as the json_num wrapper, 2 = as the json_num_option wrapper,
/// 3 = the same three through serde_json::Value, 4 = a non-numeric serde value deserializer selected by `doc`
#[derive(Clone, Debug, Hash, Serialize, Deserialize)]
pub struct NonNum {
    pub what: u8,
    pub doc: String,
}

pub const NON_NUMERIC_DOCS: &[&str] = &[
    "true", "false", "null", "[]", "[1]", "[1.5]", "{}", "{\"a\":1}", "{\"v\":true}", "{\"v\":[1]}", "{\"v\":{}}", "{\"v\":\"abc\"}", "{\"v\":\"\"}",
    "{\"v\":{\"$serde_json::private::Number\":\"abc\"}}", "{\"$serde_json::private::Number\":\"abc\"}", "{\"$serde_json::private::Number\":\"1.5\"}",
    "{\"$serde_json::private::Number\":7}", "\"abc\"", "\"\"", "\"1.5.5\"", "\"0x10\"", "\"NaN\"", "\"inf\"", "{\"w\":1}", "{\"v\":\"1.5\"}",
    "{\"v\":null}", "\"1.5\"", "\" 1.5\"", "\"1e\"", "[[]]", "{\"v\":[]}",
];

pub fn check_nonnum(c: &NonNum) -> Verdict {
    use serde::de::value::{BoolDeserializer, BytesDeserializer, CharDeserializer, Error as VErr, MapDeserializer, SeqDeserializer, StrDeserializer, UnitDeserializer};
    use serde::de::IntoDeserializer;
    let mut v = Verdict::pass(true);
    let show = |s: &str| crate::engine::truncate(s, 120);
    // a panic is caught by the engine and reported as a violation; what is checked here is that no garbage comes back
    // a JSON string holding a numeral, or serde_json's arbitrary-precision number marker holding one (the visitor
    // implements that protocol on purpose), denotes that numeral
    let numeral_in_string = |doc: &str| -> Option<(num_bigint::BigInt, i64)> {
        let marker = doc.strip_prefix("{\"$serde_json::private::Number\":").and_then(|d| d.strip_suffix('}'));
        if let Some(m) = marker {
            if is_json_number(m.as_bytes()) {
                return parse_reference(m.as_bytes());
            }
        }
        let doc = marker.unwrap_or(doc);
        let inner = doc.strip_prefix('"').and_then(|d| d.strip_suffix('"'))?;
        parse_reference(inner.as_bytes())
    };
    match c.what % 5 {
        0 => {
            let r = serde_json::from_str::<BigDecimal>(&c.doc);
            match (r, numeral_in_string(&c.doc)) {
                (Ok(y), Some(w)) => ensure!(v, y.as_bigint_and_exponent() == w, "C17/string-not-digit-for-digit", "{} read as {:?}", show(&c.doc), D::of(&y)),
                (Ok(y), None) => ensure!(v, false, "C17/non-numeric-accepted", "BigDecimal read from {} is {:?}", show(&c.doc), D::of(&y)),
                (Err(_), Some(_)) => ensure!(v, c.doc.starts_with('{'), "C17/numeric-string-rejected", "the numeric string {} was rejected", show(&c.doc)),
                (Err(_), None) => {}
            }
        }
        1 => {
            // json_num: a number is required; a numeric string, if accepted at all, must carry the right digits
            if let Ok(y) = serde_json::from_str::<WNum>(&c.doc) {
                // (a derived struct also deserializes from a one-element sequence: [x] is the field x)
                let inner = c.doc.strip_prefix("{\"v\":").and_then(|d| d.strip_suffix('}')).or_else(|| c.doc.strip_prefix('[').and_then(|d| d.strip_suffix(']'))).unwrap_or("");
                let w = numeral_in_string(inner).or_else(|| if is_json_number(inner.as_bytes()) { parse_reference(inner.as_bytes()) } else { None });
                ensure!(v, w.as_ref().map(|w| y.v.as_bigint_and_exponent() == *w) == Some(true), "C17/json_num-non-numeric-accepted", "json_num read {} as {:?}", show(&c.doc), D::of(&y.v));
            }
        }
        2 => match serde_json::from_str::<WOpt>(&c.doc) {
            Ok(WOpt { v: None }) => ensure!(v, c.doc == "{\"v\":null}", "C17/json_num_option-dropped", "json_num_option read {} as None", show(&c.doc)),
            Ok(WOpt { v: Some(y) }) => {
                // (a derived struct also deserializes from a one-element sequence: [x] is the field x)
                let inner = c.doc.strip_prefix("{\"v\":").and_then(|d| d.strip_suffix('}')).or_else(|| c.doc.strip_prefix('[').and_then(|d| d.strip_suffix(']'))).unwrap_or("");
                let w = numeral_in_string(inner).or_else(|| if is_json_number(inner.as_bytes()) { parse_reference(inner.as_bytes()) } else { None });
                ensure!(v, w.as_ref().map(|w| y.as_bigint_and_exponent() == *w) == Some(true), "C17/json_num_option-non-numeric-accepted", "json_num_option read {} as {:?}", show(&c.doc), D::of(&y));
            }
            Err(_) => {}
        },
        3 => {
            if let Ok(val) = serde_json::from_str::<serde_json::Value>(&c.doc) {
                if let Ok(y) = serde_json::from_value::<BigDecimal>(val.clone()) {
                    ensure!(v, numeral_in_string(&c.doc).map(|w| y.as_bigint_and_exponent() == w) == Some(true), "C17/non-numeric-accepted-value", "BigDecimal read from the Value {} is {:?}", show(&c.doc), D::of(&y));
                }
                let is_null_field = c.doc == "{\"v\":null}";
                // (a derived struct also deserializes from a one-element sequence: [x] is the field x)
                let inner = c.doc.strip_prefix("{\"v\":").and_then(|d| d.strip_suffix('}')).or_else(|| c.doc.strip_prefix('[').and_then(|d| d.strip_suffix(']'))).unwrap_or("");
                let w = numeral_in_string(inner).or_else(|| if is_json_number(inner.as_bytes()) { parse_reference(inner.as_bytes()) } else { None }).map(|w| Dec::new(w.0, w.1 as i128));
                if let Ok(y) = serde_json::from_value::<WNum>(val.clone()) {
                    ensure!(v, w.as_ref().map(|w| dec_of(&y.v).eq_val(w)) == Some(true), "C17/json_num-non-numeric-accepted-value", "json_num read the Value {} as {:?}", show(&c.doc), D::of(&y.v));
                }
                match serde_json::from_value::<WOpt>(val) {
                    Ok(WOpt { v: None }) => ensure!(v, is_null_field, "C17/json_num_option-dropped-value", "json_num_option read the Value {} as None", show(&c.doc)),
                    Ok(WOpt { v: Some(y) }) => ensure!(v, w.as_ref().map(|w| dec_of(&y).eq_val(w)) == Some(true), "C17/json_num_option-non-numeric-accepted-value", "json_num_option read the Value {} as {:?}", show(&c.doc), D::of(&y)),
                    Err(_) => ensure!(v, !is_null_field, "C17/json_num_option-null-rejected-value", "json_num_option rejected the Value {{\"v\":null}}"),
                }
            }
        }
        _ => {
            // serde value deserializers that carry no number
            let k = c.doc.len() % 7;
            let r: Result<BigDecimal, VErr> = match k {
                0 => BigDecimal::deserialize(BoolDeserializer::<VErr>::new(true)),
                1 => BigDecimal::deserialize(UnitDeserializer::<VErr>::new()),
                2 => BigDecimal::deserialize(CharDeserializer::<VErr>::new('7')),
                3 => BigDecimal::deserialize(BytesDeserializer::<VErr>::new(b"1.5")),
                4 => BigDecimal::deserialize(SeqDeserializer::<_, VErr>::new(vec![1u8, 2].into_iter())),
                5 => BigDecimal::deserialize(MapDeserializer::<_, VErr>::new(vec![(1u8, 2u8)].into_iter())),
                _ => BigDecimal::deserialize(StrDeserializer::<VErr>::new("not a number")),
            };
            if let Ok(y) = r {
                // a char or bytes that spell a numeral may legitimately be read as that numeral
                let ok = match k {
                    2 => dec_of(&y).eq_val(&Dec::from_str_int("7", 0)),
                    3 => dec_of(&y).eq_val(&Dec::from_str_int("15", 1)),
                    _ => false,
                };
                ensure!(v, ok, "C17/non-numeric-token-accepted", "value deserializer kind {} produced {:?}", k, D::of(&y));
            }
            let _ = "x".into_deserializer() as StrDeserializer<VErr>;
        }
    }
    v
}

// ---------------------------------------------------------------- primitives through value deserializers

#[derive(Clone, Debug, Hash, Serialize, Deserialize)]
pub struct PrimTok {
    /// 0..9 the integer types of C01, 10 = f32, 11 = f64
    pub ty: u8,
    /// decimal integer, or the float's bit pattern
    pub val: String,
}

pub fn check_tok(c: &PrimTok) -> Verdict {
    use num_traits::ToPrimitive;
    let n: num_bigint::BigInt = match c.val.parse() {
        Ok(n) => n,
        Err(_) => return Verdict::inconclusive("malformed"),
    };
    let mut v = Verdict::pass(false);
    macro_rules! int_case {
        ($de:ident, $conv:ident) => {{
            let val = match n.$conv() {
                Some(x) => x,
                None => return Verdict::inconclusive("out of range"),
            };
            let r = BigDecimal::deserialize($de::<ValueError>::new(val));
            match r {
                Ok(y) => ensure!(v, y.as_bigint_and_exponent() == (n.clone(), 0), "C17/primitive-inexact", "{} {} deserialized to {:?}", stringify!($de), n, D::of(&y)),
                Err(e) => ensure!(v, false, "C17/primitive-rejected", "{} {} rejected: {}", stringify!($de), n, e),
            }
        }};
    }
    match c.ty % 12 {
        0 => int_case!(U8Deserializer, to_u8),
        1 => int_case!(U16Deserializer, to_u16),
        2 => int_case!(U32Deserializer, to_u32),
        3 => int_case!(U64Deserializer, to_u64),
        4 => int_case!(U128Deserializer, to_u128),
        5 => int_case!(I8Deserializer, to_i8),
        6 => int_case!(I16Deserializer, to_i16),
        7 => int_case!(I32Deserializer, to_i32),
        8 => int_case!(I64Deserializer, to_i64),
        9 => int_case!(I128Deserializer, to_i128),
        10 => {
            let bits = match n.to_u32() {
                Some(b) => b,
                None => return Verdict::inconclusive("bits out of range"),
            };
            let f = f32::from_bits(bits);
            let r = BigDecimal::deserialize(F32Deserializer::<ValueError>::new(f));
            match bdoracle::floatbits::dec_of_f32_bits(bits) {
                Some(w) => match r {
                    Ok(y) => ensure!(v, dec_of(&y).eq_val(&w), "C17/primitive-inexact", "f32 bits {:#x} deserialized to {} expected {}", bits, dec_of(&y).show(), w.show()),
                    Err(e) => ensure!(v, false, "C17/primitive-rejected", "f32 bits {:#x} rejected: {}", bits, e),
                },
                None => ensure!(v, r.is_err(), "C17/nonfinite-accepted", "non-finite f32 accepted"),
            }
            v.nontrivial = true;
        }
        _ => {
            let bits = match n.to_u64() {
                Some(b) => b,
                None => return Verdict::inconclusive("bits out of range"),
            };
            let f = f64::from_bits(bits);
            let r = BigDecimal::deserialize(F64Deserializer::<ValueError>::new(f));
            match bdoracle::floatbits::dec_of_f64_bits(bits) {
                Some(w) => match r {
                    Ok(y) => ensure!(v, dec_of(&y).eq_val(&w), "C17/primitive-inexact", "f64 bits {:#x} deserialized to {} expected {}", bits, dec_of(&y).show(), w.show()),
                    Err(e) => ensure!(v, false, "C17/primitive-rejected", "f64 bits {:#x} rejected: {}", bits, e),
                },
                None => ensure!(v, r.is_err(), "C17/nonfinite-accepted", "non-finite f64 accepted"),
            }
            v.nontrivial = true;
        }
    }
    if c.ty % 12 < 10 {
        let (lo, hi) = crate::props::c01::prim_bounds(c.ty % 12);
        v.nontrivial = n == lo || n == hi || n.magnitude() > &num_bigint::BigUint::from(1u8);
    }
    v
}

// ---------------------------------------------------------------- generators

fn val_strategy(max_len: usize) -> BoxedStrategy<Val> {
    let limit = build_cfg().serde_limit;
    let scale = prop_oneof![
        5 => -40i64..=60,
        2 => -2000i64..=2000,
        2 => (-3i64..=3).prop_map(move |d| limit + d),
        2 => (-3i64..=3).prop_map(move |d| -limit + d),
        1 => -150_000i64..=150_000,
    ];
    (gen::sdigits(max_len), scale).prop_map(|(int, scale)| Val { d: D::new(int, scale) }).boxed()
}

/// marker added to a generated exponent meaning "choose the exponent so that the scale equals this value"
const SCALE_TARGET: i64 = 1 << 50;

fn json_number_text(max_digits: usize) -> BoxedStrategy<String> {
    let limit = build_cfg().serde_limit;
    (
        any::<bool>(),
        gen::udigits(max_digits),
        prop_oneof![2 => Just(None), 3 => gen::udigits(max_digits).prop_map(Some)],
        prop_oneof![
            3 => Just(None),
            3 => (-400i64..=400).prop_map(Some),
            1 => (-3i64..=3).prop_map(move |d| Some(limit + d)),
            1 => (-3i64..=3).prop_map(move |d| Some(-limit + d)),
            // the SCALE (fraction digits - exponent) at the limit +-3: marked by an offset the renderer recognises
            2 => (-3i64..=3, any::<bool>()).prop_map(move |(d, neg)| Some(SCALE_TARGET + if neg { -(limit + d) } else { limit + d })),
            1 => prop_oneof![Just(i64::MAX), Just(i64::MIN), Just(i64::MAX - 1), Just(i64::MIN + 1)].prop_map(Some),
            1 => gen::pow2_scale().prop_map(Some),
            1 => (1i64..=4, -150_010i64..=150_010, any::<bool>()).prop_map(|(m, d, neg)| { let v = m * (1i64 << 32) + d; Some(if neg { -v } else { v }) }),
        ],
        0..3u8,
        any::<bool>(),
        any::<u64>(),
    )
        .prop_map(|(neg, int, frac, exp, esign, upper, seed)| {
            // a few exponents that do not fit an i64 at all (2^63, 2^63 + small, 2^64, 10^20)
            let huge: Option<&str> = match (seed % 40, exp) {
                (0, Some(_)) => Some("9223372036854775808"),
                (1, Some(_)) => Some("9223372036854775811"),
                (2, Some(_)) => Some("-9223372036854775809"),
                (3, Some(_)) => Some("18446744073709551616"),
                (4, Some(_)) => Some("100000000000000000000"),
                _ => None,
            };
            let mut s = String::new();
            if neg {
                s.push('-');
            }
            s.push_str(&int);
            if let Some(f) = frac {
                s.push('.');
                // fraction digits may start with zeros
                let mut rng = gen::SplitMix(seed);
                for _ in 0..rng.below(4) {
                    s.push('0');
                }
                s.push_str(&f);
            }
            // an exponent chosen so that the resulting scale, not the exponent, sits at the limit
            let frac_len = s.split_once('.').map(|(_, f)| f.len() as i64).unwrap_or(0);
            let exp = exp.map(|e| if (e as i128 - SCALE_TARGET as i128).abs() < (1 << 40) { frac_len - (e - SCALE_TARGET) } else { e });
            if let Some(h) = huge {
                s.push(if upper { 'E' } else { 'e' });
                s.push_str(h);
            } else if let Some(e) = exp {
                s.push(if upper { 'E' } else { 'e' });
                if e >= 0 && esign == 1 {
                    s.push('+');
                }
                // JSON allows any number of leading zeros in the exponent digits ("1.5e0005", also after a sign): one text in five
                // is padded, by lengths around the 20 digits of a u64/i64, the 39 digits of an i128 and far beyond
                const PADS: [usize; 16] = [1, 2, 3, 17, 18, 19, 20, 21, 36, 37, 38, 39, 40, 41, 64, 300];
                let digits = e.unsigned_abs().to_string();
                if e < 0 {
                    s.push('-');
                }
                if (seed >> 8) % 5 == 0 {
                    for _ in 0..PADS[((seed >> 16) % 16) as usize] {
                        s.push('0');
                    }
                }
                s.push_str(&digits);
            }
            s
        })
        .boxed()
}

fn text_strategy(max_digits: usize) -> BoxedStrategy<JsonText> {
    let malformed = (json_number_text(30), any::<u16>(), 0..12u8).prop_map(|(s, pos, how)| {
        let mut b = s.into_bytes();
        let p = gen::pick_idx(pos, b.len() + 1);
        let tok: &[u8] = match how {
            0 => b"0",
            1 => b".",
            2 => b"e",
            3 => b"+",
            4 => b"-",
            5 => b"_",
            6 => b" ",
            7 => b"x",
            8 => b"E-",
            9 => b"00",
            10 => b"1e99999999999999999999",
            _ => b"NaN",
        };
        let tail = b.split_off(p);
        b.extend_from_slice(tok);
        b.extend_from_slice(&tail);
        String::from_utf8(b).unwrap()
    });
    prop_oneof![4 => json_number_text(max_digits), 2 => malformed].prop_map(|text| JsonText { text }).boxed()
}

fn tok_strategy() -> BoxedStrategy<PrimTok> {
    (0..12u8, 0..12u8, any::<u128>())
        .prop_map(|(ty, sel, raw)| {
            if ty >= 10 {
                let bits: u128 = if ty == 10 {
                    match sel {
                        0 => f32::NAN.to_bits() as u128,
                        1 => f32::INFINITY.to_bits() as u128,
                        2 => f32::NEG_INFINITY.to_bits() as u128,
                        3 => 1,
                        4 => 0,
                        5 => ((1u32 << 31) | (raw as u32 & 0x7f_ffff)) as u128, // negative subnormal
                        6 => (raw as u32 & 0x7f_ffff) as u128,                 // positive subnormal
                        // everyday magnitudes: exponent field within +-40 of the bias, random mantissa and sign
                        7 | 8 => ((raw as u32 & 0x807f_ffff) | ((127 - 40 + ((raw >> 40) as u32 % 81)) << 23)) as u128,
                        _ => (raw as u32) as u128,
                    }
                } else {
                    match sel {
                        0 => f64::NAN.to_bits() as u128,
                        1 => f64::INFINITY.to_bits() as u128,
                        2 => f64::NEG_INFINITY.to_bits() as u128,
                        3 => 1,
                        4 => 0,
                        5 => ((1u64 << 63) | (raw as u64 & 0xf_ffff_ffff_ffff)) as u128, // negative subnormal
                        6 => (raw as u64 & 0xf_ffff_ffff_ffff) as u128,                 // positive subnormal
                        // everyday magnitudes: exponent field within +-70 of the bias (2^-70 .. 2^70), random mantissa and sign
                        7 | 8 | 9 => ((raw as u64 & 0x800f_ffff_ffff_ffff) | ((1023 - 70 + ((raw >> 64) as u64 % 141)) << 52)) as u128,
                        _ => (raw as u64) as u128,
                    }
                };
                return PrimTok { ty, val: bits.to_string() };
            }
            let (lo, hi) = crate::props::c01::prim_bounds(ty);
            let span: num_bigint::BigInt = &hi - &lo + 1;
            let val = match sel {
                0 => lo.clone(),
                1 => hi.clone(),
                2 => num_bigint::BigInt::from(0),
                3 => num_bigint::BigInt::from(1),
                _ => &lo + (num_bigint::BigInt::from(raw) % &span),
            };
            PrimTok { ty, val: val.max(lo).min(hi).to_string() }
        })
        .boxed()
}

pub fn run(ctx: &Ctx) {
    let t = ctx.tier;
    if let crate::engine::RunMode::Normal = &*ctx.mode.lock().unwrap() {
        if let Err(e) = check_null() {
            // reported through a listed stage so that it gets a replay file
            ctx.listed("null-option", "null", "json_num_option: None <-> null", vec![JsonText { text: "null".into() }], move |_c: &JsonText| Verdict::fail("C17/null-option", e.clone()));
        }
    }
    ctx.enumerated(
        "zeros-and-small",
        "val",
        41 * 81,
        true,
        "EXHAUSTIVE: n in -20..20 x every scale -40..40 (zeros with positive and negative scales included)",
        |i| Some(Val { d: D::new((i as i64 / 81 - 20).to_string(), i as i64 % 81 - 40) }),
        check_val,
    );
    {
        let mut cases = Vec::new();
        for what in 0..4u8 {
            for d in NON_NUMERIC_DOCS {
                cases.push(NonNum { what, doc: d.to_string() });
            }
        }
        for k in 0..7 {
            cases.push(NonNum { what: 4, doc: "x".repeat(k) });
        }
        ctx.listed("non-numeric-input", "nonnum", "JSON documents that are not numbers (true, null, arrays, maps, foreign maps, the private number marker with a non-number, non-numeral strings, duplicate and missing fields) read as BigDecimal, through json_num and json_num_option, from text and from a Value; serde value deserializers for bool, unit, char, bytes, seq, map, str: an error or the right numeral, never a panic or another number", cases, check_nonnum);
    }
    let max_len = t.pick(200usize, 400);
    let n = t.pick(500_000u64, 3_000_000);
    ctx.generated("decimals", "val", n, "1..400 digits; scales +-40..60, +-2000, the scale limit +-3 on both sides, anywhere in +-150000", move || val_strategy(max_len), check_val);
    let max_digits = t.pick(400usize, 2000);
    ctx.generated("json-texts", "text", n, "JSON numbers from the grammar (1..max digits, fractions with leading zeros, exponents small / at the scale limit / at the i64 ends, one in five zero-padded by 1..3, 17..21, 36..41, 64 or 300 zeros) and single-token corruptions of them; read as number, as numeric string and through json_num / json_num_option", move || text_strategy(max_digits), check_text);
    ctx.generated("primitive-tokens", "tok", n, "serde::de::value deserializers for u8..u128, i8..i128 (MIN, MAX, 0, 1, random), f32/f64 bit patterns incl. NaN, infinities, subnormals, and a quarter of them with everyday magnitudes (2^-70..2^70: up to 52 + 70 binary places)", tok_strategy, check_tok);
}
