//! C15 — integer conversions truncate toward zero and report overflow as None.

use crate::engine::{Ctx, Verdict};
use crate::ensure;
use crate::gen::{self, D};
use bdoracle::dec::pow10i;
use bigdecimal::{BigDecimal, FromPrimitive, ToPrimitive};
use num_bigint::{BigInt, ToBigInt};
use num_integer::Integer;
use num_traits::{Signed, Zero};
use proptest::prelude::*;
use serde::{Deserialize, Serialize};

pub const RULE: &str = "case = one decimal (to_* conversions, to_bigint, is_integer on value and reference) or one primitive value of one of ten integer types (From / FromPrimitive); expected result = truncation toward zero by the integer model, None iff it does not fit (negative values never convert to unsigned types); non-trivial = the decimal has a non-zero fractional part or lies within 3 of a type limit, or the primitive is a type extreme; distinct = structural hash";
pub const EXPLANATION: &str = "Oracle: trunc(int / 10^scale) with BigInt division (or int * 10^-scale), then a range test against the type limits. Generated values concentrate on LIMIT + {-2..2} + {0, +-0.5, +-0.999..} for i64/u64/i128/u128 written with assorted scales, fractions in (-1, 1), and small values pushed past a limit by a negative scale.";

#[derive(Clone, Debug, Hash, Serialize, Deserialize)]
pub struct Conv {
    pub d: D,
}

/// truncated integer value; None when astronomically large (cannot fit any target type)
fn trunc_model(int: &BigInt, scale: i64) -> Option<BigInt> {
    if int.is_zero() {
        return Some(BigInt::zero());
    }
    if scale > 0 {
        let nd = bdoracle::dec::ndigits(int);
        if scale as u64 > nd {
            return Some(BigInt::zero());
        }
        // BigInt division truncates toward zero
        Some(int / pow10i(scale as u64))
    } else if scale == 0 {
        Some(int.clone())
    } else {
        let k = scale.unsigned_abs();
        if k > 100 {
            None
        } else {
            Some(int * pow10i(k))
        }
    }
}

fn fits(v: &Option<BigInt>, lo: &BigInt, hi: &BigInt) -> Option<BigInt> {
    match v {
        Some(x) if x >= lo && x <= hi => Some(x.clone()),
        _ => None,
    }
}

pub fn check_conv(c: &Conv) -> Verdict {
    let x = c.d.bd();
    let int = c.d.bigint();
    let t = trunc_model(&int, c.d.scale);
    let frac_nonzero = c.d.scale > 0 && !int.is_zero() && {
        let nd = bdoracle::dec::ndigits(&int);
        c.d.scale as u64 > nd || !(int.clone() % pow10i(c.d.scale as u64)).is_zero()
    };
    let limits: [(&str, BigInt, BigInt); 4] = [
        ("i64", BigInt::from(i64::MIN), BigInt::from(i64::MAX)),
        ("i128", BigInt::from(i128::MIN), BigInt::from(i128::MAX)),
        ("u64", BigInt::from(0u8), BigInt::from(u64::MAX)),
        ("u128", BigInt::from(0u8), BigInt::from(u128::MAX)),
    ];
    let near_limit = t.as_ref().map(|tv| limits.iter().any(|(_, lo, hi)| (tv - lo).abs() <= BigInt::from(3) || (tv - hi).abs() <= BigInt::from(3))).unwrap_or(false);
    let mut v = Verdict::pass(frac_nonzero || near_limit);
    if near_limit {
        v.labels.push("near-type-limit");
    }
    if frac_nonzero {
        v.labels.push("fractional");
    }
    let negative = int.is_negative();
    // expected per type
    let e_i64 = fits(&t, &limits[0].1, &limits[0].2).and_then(|b| b.to_i64());
    let e_i128 = fits(&t, &limits[1].1, &limits[1].2).and_then(|b| b.to_i128());
    // a negative decimal never converts to an unsigned type, even when it truncates to zero
    let e_u64 = if negative { None } else { fits(&t, &limits[2].1, &limits[2].2).and_then(|b| b.to_u64()) };
    let e_u128 = if negative { None } else { fits(&t, &limits[3].1, &limits[3].2).and_then(|b| b.to_u128()) };
    let r = x.to_ref();
    ensure!(v, x.to_i64() == e_i64, "C15/to_i64", "to_i64() = {:?} expected {:?}", x.to_i64(), e_i64);
    ensure!(v, r.to_i64() == e_i64, "C15/ref-to_i64", "ref.to_i64() = {:?} expected {:?}", r.to_i64(), e_i64);
    ensure!(v, x.to_i128() == e_i128, "C15/to_i128", "to_i128() = {:?} expected {:?}", x.to_i128(), e_i128);
    ensure!(v, r.to_i128() == e_i128, "C15/ref-to_i128", "ref.to_i128() = {:?} expected {:?}", r.to_i128(), e_i128);
    ensure!(v, x.to_u64() == e_u64, "C15/to_u64", "to_u64() = {:?} expected {:?}", x.to_u64(), e_u64);
    ensure!(v, r.to_u64() == e_u64, "C15/ref-to_u64", "ref.to_u64() = {:?} expected {:?}", r.to_u64(), e_u64);
    ensure!(v, x.to_u128() == e_u128, "C15/to_u128", "to_u128() = {:?} expected {:?}", x.to_u128(), e_u128);
    ensure!(v, r.to_u128() == e_u128, "C15/ref-to_u128", "ref.to_u128() = {:?} expected {:?}", r.to_u128(), e_u128);
    if let Some(tv) = &t {
        let b = x.to_bigint();
        ensure!(v, b.as_ref() == Some(tv), "C15/to_bigint", "to_bigint() = {:?} expected {}", b, tv);
    }
    // is_integer
    ensure!(v, x.is_integer() == !frac_nonzero, "C15/is_integer", "is_integer() = {} but fractional part non-zero = {}", x.is_integer(), frac_nonzero);
    v
}

#[derive(Clone, Debug, Hash, Serialize, Deserialize)]
pub struct Prim {
    pub ty: u8,
    pub val: String,
    pub scale: i64,
}

macro_rules! from_checks {
    ($v:expr, $t:ty, $val:expr, $scale:expr) => {{
        let val: $t = $val;
        let want = BigInt::from(val);
        let a = BigDecimal::from(val);
        ensure!($v, a.as_bigint_and_exponent() == (want.clone(), 0), concat!("C15/From<", stringify!($t), ">"), "From<{}>({}) = {:?}", stringify!($t), val, D::of(&a));
        let b = BigDecimal::from(&val);
        ensure!($v, b.as_bigint_and_exponent() == (want.clone(), 0), concat!("C15/From<&", stringify!($t), ">"), "From<&{}>({}) = {:?}", stringify!($t), val, D::of(&b));
        let c = BigDecimal::from((val, $scale));
        ensure!($v, c.as_bigint_and_exponent() == (want.clone(), $scale), concat!("C15/From<(", stringify!($t), ",i64)>"), "From<({}, i64)>(({}, {})) = {:?}", stringify!($t), val, $scale, D::of(&c));
        // and back
        ensure!($v, a.to_bigint() == Some(want.clone()), "C15/From-to_bigint", "to_bigint of From<{}>({}) differs", stringify!($t), val);
    }};
}

pub fn check_prim(c: &Prim) -> Verdict {
    let n: BigInt = match c.val.parse() {
        Ok(n) => n,
        Err(_) => return Verdict::inconclusive("malformed primitive value"),
    };
    let ty = c.ty % 10;
    let (lo, hi) = crate::props::c01::prim_bounds(ty);
    if n < lo || n > hi {
        return Verdict::inconclusive("primitive value out of range for its type");
    }
    let mut v = Verdict::pass(n == lo || n == hi);
    v.labels.push(crate::props::c01::PRIM_TYPES[ty as usize]);
    let scale = c.scale;
    match ty {
        0 => from_checks!(v, u8, n.to_u8().unwrap(), scale),
        1 => from_checks!(v, u16, n.to_u16().unwrap(), scale),
        2 => from_checks!(v, u32, n.to_u32().unwrap(), scale),
        3 => {
            from_checks!(v, u64, n.to_u64().unwrap(), scale);
            let f = <BigDecimal as FromPrimitive>::from_u64(n.to_u64().unwrap());
            ensure!(v, f.map(|x| x.as_bigint_and_exponent()) == Some((n.clone(), 0)), "C15/from_u64", "FromPrimitive::from_u64({}) differs", n);
        }
        4 => {
            from_checks!(v, u128, n.to_u128().unwrap(), scale);
            let f = <BigDecimal as FromPrimitive>::from_u128(n.to_u128().unwrap());
            ensure!(v, f.map(|x| x.as_bigint_and_exponent()) == Some((n.clone(), 0)), "C15/from_u128", "FromPrimitive::from_u128({}) differs", n);
        }
        5 => from_checks!(v, i8, n.to_i8().unwrap(), scale),
        6 => from_checks!(v, i16, n.to_i16().unwrap(), scale),
        7 => from_checks!(v, i32, n.to_i32().unwrap(), scale),
        8 => {
            from_checks!(v, i64, n.to_i64().unwrap(), scale);
            let f = <BigDecimal as FromPrimitive>::from_i64(n.to_i64().unwrap());
            ensure!(v, f.map(|x| x.as_bigint_and_exponent()) == Some((n.clone(), 0)), "C15/from_i64", "FromPrimitive::from_i64({}) differs", n);
        }
        _ => {
            from_checks!(v, i128, n.to_i128().unwrap(), scale);
            let f = <BigDecimal as FromPrimitive>::from_i128(n.to_i128().unwrap());
            ensure!(v, f.map(|x| x.as_bigint_and_exponent()) == Some((n.clone(), 0)), "C15/from_i128", "FromPrimitive::from_i128({}) differs", n);
        }
    }
    // round trip through the decimal conversions
    let x = BigDecimal::new(n.clone(), 0);
    ensure!(v, x.to_i64() == n.to_i64() && x.to_u64() == n.to_u64() && x.to_i128() == n.to_i128() && x.to_u128() == n.to_u128(), "C15/prim-roundtrip", "conversions of the integer {} disagree with BigInt's own", n);
    v
}

// ---------------------------------------------------------------- generators

fn limit_of(which: u8) -> BigInt {
    match which % 7 {
        0 => BigInt::from(i64::MAX),
        1 => BigInt::from(i64::MIN),
        2 => BigInt::from(u64::MAX),
        3 => BigInt::from(i128::MAX),
        4 => BigInt::from(i128::MIN),
        5 => BigInt::from(u128::MAX),
        _ => BigInt::from(0),
    }
}

/// LIMIT + d + fraction, written at scale `s` (>= number of fraction digits) or with a negative scale
fn near_limit_strategy() -> BoxedStrategy<Conv> {
    (0..7u8, -2i64..=2, 0..7u8, prop_oneof![3 => 0usize..6, 2 => 6usize..39], prop_oneof![3 => 0i64..5, 1 => 5i64..36])
        .prop_map(|(which, d, frac, nines, extra)| {
            // the fraction is written with up to 40 digits in all (scale <= 40)
            let extra = extra.min(39 - nines as i64).max(0);
            let base = limit_of(which) + d;
            // fraction numerator over 10^k
            let (fnum, k): (BigInt, u32) = match frac {
                0 => (BigInt::from(0), 0),
                1 => (BigInt::from(5), 1),
                2 => (BigInt::from(-5), 1),
                3 => (bigint_nines(nines + 1), nines as u32 + 1),
                4 => (-bigint_nines(nines + 1), nines as u32 + 1),
                5 => (BigInt::from(1), nines as u32 + 1),
                _ => (BigInt::from(-1), nines as u32 + 1),
            };
            let scale = k as i64 + extra;
            let int = (base * BigInt::from(10u8).pow(k) + fnum) * BigInt::from(10u8).pow(extra as u32);
            Conv { d: D::new(int.to_string(), scale) }
        })
        .boxed()
}

fn bigint_nines(n: usize) -> BigInt {
    "9".repeat(n).parse().unwrap()
}

/// small unscaled value pushed to (or past) a limit by a negative scale
fn pushed_strategy() -> BoxedStrategy<Conv> {
    (0..7u8, -2i64..=2, 1u32..=40, any::<bool>())
        .prop_map(|(which, d, k, exact)| {
            let lim = limit_of(which) + d;
            let p = BigInt::from(10u8).pow(k);
            // int * 10^k close to the limit: floor(lim / 10^k) (+1)
            let (q, _) = lim.div_rem(&p);
            let int = if exact { q } else { q + 1 };
            Conv { d: D::new(int.to_string(), -(k as i64)) }
        })
        .boxed()
}

fn free_strategy() -> BoxedStrategy<Conv> {
    (gen::sdigits(60), -40i64..=40).prop_map(|(int, scale)| Conv { d: D::new(int, scale) }).boxed()
}

fn fraction_strategy() -> BoxedStrategy<Conv> {
    // values in (-1, 1): scale >= digit count
    (gen::sdigits(30), 0i64..12).prop_map(|(int, extra)| {
        let nd = int.trim_start_matches('-').len() as i64;
        Conv { d: D::new(int, nd + extra) }
    })
    .boxed()
}

fn prim_strategy() -> BoxedStrategy<Prim> {
    (0..10u8, 0..40u8, any::<u128>(), -40i64..=40)
        .prop_map(|(ty, sel, raw, scale)| {
            let (lo, hi) = crate::props::c01::prim_bounds(ty);
            let span: BigInt = &hi - &lo + 1;
            let val = match sel {
                0 => lo.clone(),
                1 => hi.clone(),
                2 => BigInt::from(0),
                3 => BigInt::from(1),
                4 => BigInt::from(-1),
                5 => &lo + 1,
                6 => &hi - 1,
                _ => &lo + (BigInt::from(raw) % &span),
            };
            let val = val.max(lo).min(hi);
            Prim { ty, val: val.to_string(), scale }
        })
        .boxed()
}

pub fn run(ctx: &Ctx) {
    let t = ctx.tier;
    ctx.enumerated(
        "near-limits-grid",
        "conv",
        7 * 41 * 7 * 6 * 5,
        true,
        "EXHAUSTIVE over: {i64,u64,i128,u128 MIN/MAX, 0} + d (d in -20..20) + fraction {0, +-0.5, +-0.99..9 (1..6 nines), +-0.0..01} x 5 extra trailing-zero scales",
        |i| {
            let mut k = i;
            let extra = (k % 5) as i64;
            k /= 5;
            let nines = (k % 6) as usize;
            k /= 6;
            let frac = (k % 7) as u8;
            k /= 7;
            let d = (k % 41) as i64 - 20;
            k /= 41;
            let which = k as u8;
            let base = limit_of(which) + d;
            let (fnum, kk): (BigInt, u32) = match frac {
                0 => (BigInt::from(0), 0),
                1 => (BigInt::from(5), 1),
                2 => (BigInt::from(-5), 1),
                3 => (bigint_nines(nines + 1), nines as u32 + 1),
                4 => (-bigint_nines(nines + 1), nines as u32 + 1),
                5 => (BigInt::from(1), nines as u32 + 1),
                _ => (BigInt::from(-1), nines as u32 + 1),
            };
            let int = (base * BigInt::from(10u8).pow(kk) + fnum) * BigInt::from(10u8).pow(extra as u32);
            Some(Conv { d: D::new(int.to_string(), kk as i64 + extra) })
        },
        check_conv,
    );
    ctx.enumerated(
        "padded-limits",
        "conv",
        7 * 7 * 46 * 56,
        true,
        "EXHAUSTIVE: (type limit + d, d in -3..3) x 0..45 appended zeros x independently chosen scale -5..50: boundary integers times powers of ten seen at unrelated scales",
        |i| {
            let mut k = i;
            let scale = (k % 56) as i64 - 5;
            k /= 56;
            let z = (k % 46) as u32;
            k /= 46;
            let d = (k % 7) as i64 - 3;
            k /= 7;
            let int = (limit_of(k as u8) + d) * BigInt::from(10u8).pow(z);
            Some(Conv { d: D::new(int.to_string(), scale) })
        },
        check_conv,
    );
    let n = t.pick(1_000_000u64, 10_000_000);
    ctx.enumerated(
        "small-integers-every-scale",
        "conv",
        201 * 81,
        true,
        "EXHAUSTIVE: every unscaled n in -100..100 (zero included) x every scale -40..40",
        |i| Some(Conv { d: D::new((i as i64 / 81 - 100).to_string(), i as i64 % 81 - 40) }),
        check_conv,
    );
    ctx.generated("near-limits", "conv", n, "LIMIT + {-2..2} + fraction, assorted scales", near_limit_strategy, check_conv);
    ctx.generated("pushed-past-limit", "conv", n, "floor(LIMIT/10^k) (+1) with scale -k, k in 1..40", pushed_strategy, check_conv);
    ctx.generated("free", "conv", n, "1..60 digits, scales -40..40", free_strategy, check_conv);
    ctx.generated("fractions", "conv", n / 2, "values in (-1, 1)", fraction_strategy, check_conv);
    ctx.generated("primitives", "prim", n, "ten integer types at MIN, MAX, 0, +-1, MIN+1, MAX-1 and random values; From<T>, From<&T>, From<(T,i64)>, FromPrimitive", prim_strategy, check_prim);
}
