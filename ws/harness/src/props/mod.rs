//! One module per property.

use crate::engine::Ctx;

pub struct Meta {
    pub rule: &'static str,
    pub explanation: &'static str,
    pub assumptions: Vec<&'static str>,
}

const COMMON_ASSUMPTIONS: &[&str] = &[
    "num-bigint integer arithmetic (+ - * / %, pow, to_string, parse) is correct; nth_root results are verified before use",
    "results are observed through BigDecimal::as_bigint_and_exponent (itself checked in C18)",
    "exploration never establishes absence of violations outside the explored cases",
];

macro_rules! properties {
    ($($id:literal => $m:ident),* $(,)?) => {
        $(pub mod $m;)*

        pub fn exists(p: &str) -> bool {
            match p { $($id => true,)* _ => false }
        }

        pub fn run(ctx: &Ctx) {
            match ctx.prop { $($id => $m::run(ctx),)* _ => {} }
        }

        pub fn meta(p: &str) -> Meta {
            let (rule, explanation) = match p { $($id => ($m::RULE, $m::EXPLANATION),)* "C20" => (C20_RULE, C20_EXPLANATION), _ => ("", "") };
            Meta { rule, explanation, assumptions: COMMON_ASSUMPTIONS.to_vec() }
        }
    };
}

properties! {
    "C01" => c01,
    "C02" => c02,
    "C03" => c03,
    "C04" => c04,
    "C05" => c05,
    "C06" => c06,
    "C07" => c07,
    "C08" => c08,
    "C09" => c09,
    "C10" => c10,
    "C11" => c11,
    "C12" => c12,
    "C13" => c13,
    "C14" => c14,
    "C15" => c15,
    "C16" => c16,
    "C17" => c17,
    "C18" => c18,
    "C19" => c19,
}

// C20 lives in the probe crate (cfgprobe/), rebuilt per build configuration; its evidence is
// assembled here
const C20_RULE: &str = "case = (build configuration, input): Context::default() must report the configured precision and mode; sqrt / cbrt / inverse / round must equal their explicit-context forms (and the oracles) at the configured values; a / b must satisfy the division oracle at the configured precision; exp must deliver the configured number of digits; Display must switch notation exactly at the configured zero counts; {:.N} must round with the configured mode and pad up to the configured limit; non-trivial = the configured value changes the result relative to the default build (100, HalfEven, 5, 15, 1000); distinct = structural hash / enumerated tuples, summed over configurations";
const C20_EXPLANATION: &str = "Each configuration rebuilds the library through its own build script (cfgprobe/run.sh); the probe learns the configuration from the same environment at its own compile time and, independently, from its command line (a mismatch is an infrastructure error, exit 2) - never from the library. Division is exhaustive over all numerators and denominators below 1000 when the configured precision is 1..3. Quick: 3 configurations in which every parameter differs from its default; thorough: a 24-row covering array.";

pub fn selftest() -> i32 {
    0
}
