//! One module per property.

use crate::engine::Ctx;

pub mod c01;

pub struct Meta {
    pub rule: &'static str,
    pub explanation: &'static str,
    pub assumptions: Vec<&'static str>,
}

const COMMON_ASSUMPTIONS: &[&str] = &[
    "num-bigint integer arithmetic (+ - * / %, pow, to_string, parse) is correct; nth_root results are verified before use",
    "results are observed through BigDecimal::as_bigint_and_exponent (itself checked in C18)",
    "exploration never establishes absence of violations outside the explored cases",
];

pub fn exists(p: &str) -> bool {
    matches!(p, "C01")
}

pub fn run(ctx: &Ctx) {
    match ctx.prop {
        "C01" => c01::run(ctx),
        _ => {}
    }
}

pub fn meta(p: &str) -> Meta {
    let (rule, explanation) = match p {
        "C01" => (c01::RULE, c01::EXPLANATION),
        _ => ("", ""),
    };
    Meta { rule, explanation, assumptions: COMMON_ASSUMPTIONS.to_vec() }
}

pub fn selftest() -> i32 {
    0
}
