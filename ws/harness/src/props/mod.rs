//! One module per property.

use crate::engine::Ctx;

pub struct Meta {
    pub rule: &'static str,
    pub explanation: &'static str,
    pub assumptions: Vec<&'static str>,
}

const COMMON_ASSUMPTIONS: &[&str] = &[
    "num-bigint integer arithmetic (+ - * / %, pow, to_string, parse) is correct; nth_root results are verified before use",
    "results are observed through BigDecimal::as_bigint_and_exponent (itself checked in C18)",
    "exploration never establishes absence of violations outside the explored cases",
];

macro_rules! properties {
    ($($id:literal => $m:ident),* $(,)?) => {
        $(pub mod $m;)*

        pub fn exists(p: &str) -> bool {
            match p { $($id => true,)* _ => false }
        }

        pub fn run(ctx: &Ctx) {
            match ctx.prop { $($id => $m::run(ctx),)* _ => {} }
        }

        pub fn meta(p: &str) -> Meta {
            let (rule, explanation) = match p { $($id => ($m::RULE, $m::EXPLANATION),)* _ => ("", "") };
            Meta { rule, explanation, assumptions: COMMON_ASSUMPTIONS.to_vec() }
        }
    };
}

properties! {
    "C01" => c01,
    "C02" => c02,
    "C03" => c03,
    "C04" => c04,
    "C05" => c05,
    "C06" => c06,
    "C07" => c07,
    "C08" => c08,
    "C09" => c09,
    "C10" => c10,
    "C11" => c11,
    "C12" => c12,
    "C13" => c13,
    "C14" => c14,
    "C15" => c15,
    "C16" => c16,
    "C17" => c17,
    "C18" => c18,
    "C19" => c19,
}

pub fn selftest() -> i32 {
    0
}
