//! C12 — reciprocal is accurate to the last requested digit and sign-symmetric.

use crate::conv::{build_cfg, dec_of, rm};
use crate::engine::{Ctx, Verdict};
use crate::ensure;
use crate::gen::{self, D};
use bdoracle::quot::reciprocal_check;
use bdoracle::round::ALL_MODES;
use bigdecimal::{BigDecimal, Context};
use num_bigint::BigInt;
use proptest::prelude::*;
use serde::{Deserialize, Serialize};
use std::num::NonZeroU64;

pub const RULE: &str = "case = (non-zero decimal x, precision p, mode m); inverse_with_context must terminate (iteration-cap hook), carry the sign of x, differ from 1/x by less than one unit of the p-th significant digit, equal 1/x exactly when 1/x has at most p digits, and satisfy inv_m(-x) = -inv_mirror(m)(x); for the configured default context inverse() and `1 / x` with a primitive one must agree; non-trivial = 1/x does not terminate or is longer than p digits; distinct = structural hash";
pub const EXPLANATION: &str = "Oracle is residual-based: |1 - r*x| < |x| * unit with exact model arithmetic; the unit is that of the p-th digit of the true reciprocal (the larger decade if r and 1/x straddle a power of ten). Termination is decided through the --cfg bigdecimal_verif iteration cap (a panic, reported as a violation). Generators: 1..1500 digits, scales +-2000, p in 1..150 with half of the mass on 1..5 and 100; all 2^i*5^j (i<=60, j<=30) at and just above their exact length; 99..9 and 100..01; bit lengths up to 5000 (f64 guess underflow near 1075 bits); reciprocals with 00../99.. after the p-th digit.";

#[derive(Clone, Debug, Hash, Serialize, Deserialize)]
pub struct InvCase {
    pub d: D,
    pub p: u64,
    pub mode: u8,
}

pub fn check_inv(c: &InvCase) -> Verdict {
    if c.p == 0 || c.d.is_zero() {
        return Verdict::inconclusive("p = 0 or x = 0 is outside the property's domain");
    }
    let mode = ALL_MODES[c.mode as usize % 7];
    let ctx = Context::new(NonZeroU64::new(c.p).unwrap(), rm(mode));
    let x = c.d.bd();
    let mx = c.d.dec();
    let r = x.inverse_with_context(&ctx); // a hook panic (non-termination) is caught by the engine
    let mr = dec_of(&r);
    let mut v = Verdict::pass(false);
    v.labels.push(match c.p {
        1..=3 => "p=1..3",
        4..=5 => "p=4..5",
        100 => "p=100",
        _ => "p=other",
    });
    match reciprocal_check(&mx, &mr, c.p) {
        Ok(info) => {
            v.nontrivial = !info.must_be_exact;
            v.labels.push(match (info.must_be_exact, info.terminating) {
                (true, _) => "exact(<=p digits)",
                (false, Some(_)) => "terminating(>p digits)",
                (false, None) => "non-terminating",
            });
        }
        Err((kind, detail, err_units)) => {
            v.nontrivial = true;
            // signature of the recorded low-precision finding: p <= 3, sign right, result not longer
            // than p digits, error below two units; everything else gets its own signature
            let rd = bdoracle::dec::ndigits(&mr.canonical().int);
            let sig = if kind != "sign" && c.p <= 3 && rd <= c.p && err_units < 2.0 {
                "C12/inverse-lowprec".to_string()
            } else {
                format!("C12/{}", kind)
            };
            ensure!(v, false, sig, "inverse_with_context(p={}, {}) of {} = {}: {}", c.p, mode.name(), mx.show(), mr.show(), detail);
        }
    }
    // negation commutes under the mirrored mode
    let mctx = Context::new(NonZeroU64::new(c.p).unwrap(), rm(mode.mirrored()));
    let rn = dec_of(&(-x.clone()).inverse_with_context(&mctx));
    ensure!(v, rn.eq_val(&mr.neg()), "C12/mirror", "inverse_{}(-x) = {} but -inverse_{}(x) = {}", mode.mirrored().name(), rn.show(), mode.name(), mr.neg().show());
    let cfg = build_cfg();
    if c.p == cfg.precision && mode == cfg.mode {
        v.labels.push("default-context");
        let d = dec_of(&x.inverse());
        ensure!(v, d.eq_val(&mr), "C12/default-differs", "inverse() = {} but inverse_with_context(default) = {}", d.show(), mr.show());
        let forms: Vec<(&str, BigDecimal)> = vec![
            ("1u8/x", 1u8 / x.clone()),
            ("1i32/&x", 1i32 / &x),
            ("1i64/x", 1i64 / x.clone()),
            ("1u128/&x", 1u128 / &x),
            ("&1i16/x", &1i16 / x.clone()),
            ("1.0f64/x", 1.0f64 / x.clone()),
            ("1.0f32/&x", 1.0f32 / &x),
        ];
        for (what, g) in forms {
            let g = dec_of(&g);
            ensure!(v, g.eq_val(&mr), format!("C12/one-over-x:{}", what), "{} = {} but inverse() = {}", what, g.show(), mr.show());
        }
    }
    v
}

// ---------------------------------------------------------------- generators

pub fn p_strategy() -> BoxedStrategy<u64> {
    prop_oneof![
        5 => 1u64..=5,
        3 => Just(100u64),
        3 => 1u64..=150,
        1 => 6u64..=30,
        // precisions at which p (+ guard digits) crosses the digit budget of u64 / u128
        2 => prop_oneof![14u64..=21, 35u64..=40],
    ]
    .boxed()
}

fn free_strategy(max_len: usize) -> BoxedStrategy<InvCase> {
    (gen::udigits(max_len), any::<bool>(), -2000i64..=2000, p_strategy(), 0..7u8)
        .prop_map(|(digits, neg, scale, p, mode)| {
            let int = if digits == "0" { "1".to_string() } else { digits };
            InvCase { d: D::new(if neg { format!("-{}", int) } else { int }, scale), p, mode }
        })
        .boxed()
}

/// x = 2^i * 5^j: terminating reciprocals, p at and around the exact length
fn terminating_strategy() -> BoxedStrategy<InvCase> {
    (0u32..=60, 0u32..=30, any::<bool>(), -50i64..=50, -2i64..=3, 0..7u8, 0..3u8)
        .prop_map(|(i, j, neg, scale, dp, mode, small)| {
            let xi = BigInt::from(2u8).pow(i) * BigInt::from(5u8).pow(j);
            let exact_digits = bdoracle::quot::recip_terminating_digits(xi.magnitude()).unwrap() as i64;
            let p = match small {
                0 => 1 + (dp + 2) as u64, // tiny p whatever the length
                _ => (exact_digits + dp).max(1) as u64,
            };
            InvCase { d: D::new(if neg { format!("-{}", xi) } else { xi.to_string() }, scale), p, mode }
        })
        .boxed()
}

/// x near a power of ten: 99..9, 100..01, 100..0 (+-small)
fn near_pow10_strategy() -> BoxedStrategy<InvCase> {
    (1usize..=160, 0..5u8, any::<bool>(), -100i64..=100, p_strategy(), 0..7u8)
        .prop_map(|(n, kind, neg, scale, p, mode)| {
            let int = match kind {
                0 => "9".repeat(n),
                1 => format!("1{}1", "0".repeat(n)),
                2 => format!("1{}", "0".repeat(n)),
                3 => format!("{}8", "9".repeat(n)),
                _ => format!("1{}2", "0".repeat(n)),
            };
            InvCase { d: D::new(if neg { format!("-{}", int) } else { int }, scale), p, mode }
        })
        .boxed()
}

/// integers with a prescribed bit length (drives the initial guess through f64 underflow)
fn bitlen_strategy(max_bits: u64) -> BoxedStrategy<InvCase> {
    (prop_oneof![3 => 1u64..=max_bits, 2 => 1000u64..=1150, 1 => 1u64..=80], any::<u64>(), any::<bool>(), -300i64..=300, p_strategy(), 0..7u8)
        .prop_map(|(bits, seed, neg, scale, p, mode)| {
            let mut rng = gen::SplitMix(seed);
            let mut v = BigInt::from(1);
            let mut have = 1u64;
            while have < bits {
                let take = (bits - have).min(32);
                v = (v << take as usize) + BigInt::from(rng.next() & ((1u64 << take) - 1));
                have += take;
            }
            InvCase { d: D::new(if neg { format!("-{}", v) } else { v.to_string() }, scale), p, mode }
        })
        .boxed()
}

/// x chosen so that 1/x has 00.. or 99.. right after its p-th digit: x = round(10^k / t) for a
/// p-digit t followed by zeros / nines
fn edge_tail_strategy() -> BoxedStrategy<InvCase> {
    (gen::udigits(40), 1u64..=23, 1usize..=12, any::<bool>(), 0u32..=40, any::<bool>(), -60i64..=60, 0..7u8, 0..3i8)
        .prop_map(|(head, p, run, nines, extra, neg, scale, mode, delta)| {
            let mut h = head.clone();
            if h == "0" {
                h = "3".into();
            }
            while (h.len() as u64) < p {
                h = format!("{}{}", h, head);
            }
            let h = &h[..p as usize];
            // target reciprocal digits: h then 000.. or 999..
            let t: BigInt = format!("{}{}", h, if nines { "9".repeat(run) } else { "0".repeat(run) }).parse().unwrap();
            let k = (p as u32 + run as u32) * 2 + extra;
            let x: BigInt = BigInt::from(10u8).pow(k) / &t + BigInt::from(delta - 1);
            let x = if x <= BigInt::from(0) { BigInt::from(7) } else { x };
            InvCase { d: D::new(if neg { format!("-{}", x) } else { x.to_string() }, scale), p, mode }
        })
        .boxed()
}

pub fn run(ctx: &Ctx) {
    let t = ctx.tier;
    let limit = t.pick(3000u64, 100_000);
    ctx.enumerated(
        "small-exhaustive",
        "inv",
        limit * 2 * 5 * 6 * 7,
        true,
        &format!("EXHAUSTIVE: every 0 < |n| < {} (both signs) x scale {{-9,-1,0,2,5}} x p 1..6 x 7 modes", limit),
        move |i| {
            let mut k = i;
            let mode = (k % 7) as u8;
            k /= 7;
            let p = 1 + k % 6;
            k /= 6;
            let scale = [-9i64, -1, 0, 2, 5][(k % 5) as usize];
            k /= 5;
            let neg = k % 2 == 1;
            k /= 2;
            if k == 0 {
                return None;
            }
            Some(InvCase { d: D::new(if neg { format!("-{}", k) } else { k.to_string() }, scale), p, mode })
        },
        check_inv,
    );
    ctx.enumerated(
        "all-2i5j",
        "inv",
        61 * 31 * 6 * 7,
        true,
        "EXHAUSTIVE over (i, j, p, mode): x = +-2^i*5^j for all i <= 60, j <= 30 x p in exact length + {-2..3} x 7 modes; sign and scale -3..3 vary with a mix of the four indices",
        |i| {
            let mut k = i;
            let mode = (k % 7) as u8;
            k /= 7;
            let dp = (k % 6) as i64 - 2;
            k /= 6;
            let j = (k % 31) as u32;
            let i2 = (k / 31) as u32;
            let xi = BigInt::from(2u8).pow(i2) * BigInt::from(5u8).pow(j);
            let exact_digits = bdoracle::quot::recip_terminating_digits(xi.magnitude()).unwrap() as i64;
            // scale and sign vary independently of the mode (i2 + 3j + 5dp runs through all residues for each mode)
            let mix = i2 as i64 + 3 * j as i64 + 5 * (dp + 2) + 2 * mode as i64;
            let scale = mix % 7 - 3;
            let digits = if (mix / 7) % 2 == 1 { format!("-{}", xi) } else { xi.to_string() };
            Some(InvCase { d: D::new(digits, scale), p: (exact_digits + dp).max(1) as u64, mode })
        },
        check_inv,
    );
    let max_len = t.pick(400usize, 1500);
    let n = t.pick(200_000u64, 3_000_000);
    ctx.generated("random", "inv", n, "1..max digits, scales +-2000, both signs, p weighted to 1..5 and 100", move || free_strategy(max_len), check_inv);
    ctx.generated(
        "machine-word-coefficients",
        "inv",
        n,
        "coefficients around 10^9, 2^32, 10^19, 2^64, 10^38, 2^128 (+- small and random in the top decade) x p in 1..40",
        || {
            (0..6usize, 0..4u8, any::<u64>(), any::<bool>(), -40i64..=40, 1u64..=40, 0..7u8)
                .prop_map(|(which, how, r, neg, scale, p, mode)| {
                    let base: BigInt = match which {
                        0 => BigInt::from(10u8).pow(9),
                        1 => BigInt::from(1) << 32,
                        2 => BigInt::from(10u8).pow(19),
                        3 => BigInt::from(1) << 64,
                        4 => BigInt::from(10u8).pow(38),
                        _ => BigInt::from(1) << 128,
                    };
                    let v: BigInt = match how {
                        0 => &base + BigInt::from(r % 7) - 3,
                        1 => &base - BigInt::from(1 + r % 1000),
                        // anywhere between base and 1.9 * base
                        2 => &base + (&base * BigInt::from(r % 900_000)) / BigInt::from(1_000_000),
                        _ => &base + BigInt::from(r),
                    };
                    let v = if v <= BigInt::from(0) { BigInt::from(3) } else { v };
                    InvCase { d: D::new(if neg { format!("-{}", v) } else { v.to_string() }, scale), p, mode }
                })
                .boxed()
        },
        check_inv,
    );
    ctx.generated("terminating", "inv", n, "x = 2^i*5^j with random sign/scale, p tiny or around the exact length", terminating_strategy, check_inv);
    ctx.generated("near-power-of-ten", "inv", n / 2, "x = 99..9, 99..98, 100..0, 100..01, 100..02 (1..160 digits)", near_pow10_strategy, check_inv);
    ctx.generated("bit-lengths", "inv", n / 2, "integers of prescribed bit length 1..5000 (emphasis 1000..1150)", move || bitlen_strategy(t.pick(3000, 5000)), check_inv);
    ctx.generated("edge-tails", "inv", n, "1/x with 00.. or 99.. right after the p-th digit (p in 1..23)", edge_tail_strategy, check_inv);
    // precisions far above the default: the number of Newton refinements grows with log2(p) and depends on how good the first guess is,
    // which is worst just above a power of two
    ctx.generated(
        "high-precision",
        "inv",
        t.pick(4000u64, 100_000),
        "p in 150..1300 x (2^k + {-1, 0, 1, small, random below 2^k/8} for k in 1..1100, small integers 3..999, random 1..60 digits), both signs, scales +-50, 7 modes",
        || {
            (0..8u8, 1u32..=1100, any::<u64>(), any::<bool>(), -50i64..=50, 150u64..=1300, 0..7u8)
                .prop_map(|(how, k, r, neg, scale, p, mode)| {
                    let base = BigInt::from(1) << k;
                    let v: BigInt = match how {
                        0 => &base - BigInt::from(1),
                        1 => base.clone(),
                        2 | 3 => &base + BigInt::from(1),
                        4 => &base + BigInt::from(r % 1000),
                        5 => &base + (&base * BigInt::from(r % 125_000)) / BigInt::from(1_000_000),
                        6 => BigInt::from(3 + r % 997),
                        _ => BigInt::from(r) * BigInt::from(r.rotate_left(17) | 1) * BigInt::from(r.rotate_left(41) | 1) + BigInt::from(1),
                    };
                    let v = if v <= BigInt::from(0) { BigInt::from(3) } else { v };
                    InvCase { d: D::new(if neg { format!("-{}", v) } else { v.to_string() }, scale), p, mode }
                })
                .boxed()
        },
        check_inv,
    );
}
