//! C02 — equality and ordering are those of the numeric values.

use crate::engine::{Ctx, Verdict};
use crate::ensure;
use crate::gen::{self, boundary_words, DigSpec, SplitMix, D};
use bigdecimal::BigDecimal;
use num_bigint::BigUint;
use proptest::prelude::*;
use serde::{Deserialize, Serialize};
use std::cmp::Ordering;

pub const RULE: &str = "case = pair (a, b) [or a vector of 2..12 decimals]; every comparison operator on BigDecimal and BigDecimalRef is compared with the exact order of the denoted rationals; non-trivial = same sign, both non-zero and equal adjusted exponents (so the digits, not the magnitude pre-filters, decide); distinct = structural hash of the pair";
pub const EXPLANATION: &str = "Oracle: adjusted-exponent-first exact comparison on (BigInt, i128 scale). Grid stage enumerates value-equal twins and their +-1 neighbours for scale gaps 1..60 over all 1- and 2-word operands drawn from the 32-bit boundary words floor(2^64/10^k)+-1, floor(2^32/10^j)+-1, 0, 1, 2^32-1 (the carry/overflow boundaries of the word-wise comparison). Run on the release build and on a release build with debug assertions and overflow checks; any panic is a violation.";

#[derive(Clone, Debug, Hash, Serialize, Deserialize)]
pub struct CmpPair {
    pub a: D,
    pub b: D,
}

fn ord_name(o: Ordering) -> &'static str {
    match o {
        Ordering::Less => "Less",
        Ordering::Equal => "Equal",
        Ordering::Greater => "Greater",
    }
}

pub fn check_pair(c: &CmpPair) -> Verdict {
    let a = c.a.bd();
    let b = c.b.bd();
    let ma = c.a.dec();
    let mb = c.b.dec();
    let want = ma.cmp_val(&mb);
    let nt = !ma.is_zero() && !mb.is_zero() && ma.signum() == mb.signum() && ma.adjusted() == mb.adjusted();
    let mut v = Verdict::pass(nt);
    let gap = (c.a.scale as i128 - c.b.scale as i128).unsigned_abs();
    v.labels.push(match gap {
        0 => "gap=0",
        1..=19 => "gap=1..19(wordwise)",
        20..=60 => "gap=20..60(digitwise)",
        61..=9223372036854775807 => "gap=61..2^63",
        _ => "gap>2^63",
    });
    v.labels.push(match want {
        Ordering::Equal => "equal",
        _ => "unequal",
    });
    let sig = |what: &str| format!("C02/{}", what);
    // owned values
    ensure!(v, a.cmp(&b) == want, sig("cmp"), "a.cmp(b) = {} expected {}", ord_name(a.cmp(&b)), ord_name(want));
    ensure!(v, b.cmp(&a) == want.reverse(), sig("cmp-antisym"), "b.cmp(a) = {} expected {}", ord_name(b.cmp(&a)), ord_name(want.reverse()));
    ensure!(v, a.partial_cmp(&b) == Some(want), sig("partial_cmp"), "a.partial_cmp(b) = {:?}", a.partial_cmp(&b));
    ensure!(v, (a == b) == (want == Ordering::Equal), sig("eq"), "a == b is {} but exact order is {}", a == b, ord_name(want));
    ensure!(v, (b == a) == (want == Ordering::Equal), sig("eq-sym"), "b == a is {} but exact order is {}", b == a, ord_name(want));
    ensure!(v, (a != b) == (want != Ordering::Equal), sig("ne"), "a != b is {}", a != b);
    ensure!(v, (a < b) == (want == Ordering::Less), sig("lt"), "a < b is {}", a < b);
    ensure!(v, (a <= b) == (want != Ordering::Greater), sig("le"), "a <= b is {}", a <= b);
    ensure!(v, (a > b) == (want == Ordering::Greater), sig("gt"), "a > b is {}", a > b);
    ensure!(v, (a >= b) == (want != Ordering::Less), sig("ge"), "a >= b is {}", a >= b);
    // references
    let (ra, rb) = (a.to_ref(), b.to_ref());
    ensure!(v, ra.cmp(&rb) == want, sig("ref-cmp"), "ref cmp = {}", ord_name(ra.cmp(&rb)));
    ensure!(v, ra.partial_cmp(&rb) == Some(want), sig("ref-partial_cmp"), "ref partial_cmp = {:?}", ra.partial_cmp(&rb));
    ensure!(v, (ra == rb) == (want == Ordering::Equal), sig("ref-eq"), "ref == ref is {}", ra == rb);
    ensure!(v, (ra == &b) == (want == Ordering::Equal), sig("ref-eq-borrow"), "ref == &BigDecimal is {}", ra == &b);
    ensure!(v, (ra < rb) == (want == Ordering::Less), sig("ref-lt"), "ref < ref is {}", ra < rb);
    ensure!(v, (ra >= rb) == (want != Ordering::Less), sig("ref-ge"), "ref >= ref is {}", ra >= rb);
    ensure!(v, (ra != rb) == (want != Ordering::Equal), sig("ref-ne"), "ref != ref is {}", ra != rb);
    ensure!(v, (ra <= rb) == (want != Ordering::Greater), sig("ref-le"), "ref <= ref is {}", ra <= rb);
    ensure!(v, (ra > rb) == (want == Ordering::Greater), sig("ref-gt"), "ref > ref is {}", ra > rb);
    {
        let (emx, emn) = if want == Ordering::Less { (&mb, &ma) } else { (&ma, &mb) };
        let (rmx, rmn) = (std::cmp::max(ra, rb), std::cmp::min(ra, rb));
        ensure!(v, crate::conv::dec_of(&rmx.to_owned()).eq_val(emx), sig("ref-max"), "max(ref a, ref b) = {}", crate::conv::dec_of(&rmx.to_owned()).show());
        ensure!(v, crate::conv::dec_of(&rmn.to_owned()).eq_val(emn), sig("ref-min"), "min(ref a, ref b) = {}", crate::conv::dec_of(&rmn.to_owned()).show());
    }
    // references whose sign was flipped / dropped without touching the digits
    let (na, nb) = (-ra, -rb);
    ensure!(v, na.cmp(&nb) == want.reverse(), sig("negref-cmp"), "(-a).cmp(-b) = {} expected {}", ord_name(na.cmp(&nb)), ord_name(want.reverse()));
    ensure!(v, (na == nb) == (want == Ordering::Equal), sig("negref-eq"), "(-a) == (-b) is {}", na == nb);
    // one side flipped, the other not
    let want_mixed = ma.neg().cmp_val(&mb);
    ensure!(v, na.cmp(&rb) == want_mixed, sig("negref-mixed-cmp"), "(-a).cmp(b) = {} expected {}", ord_name(na.cmp(&rb)), ord_name(want_mixed));
    ensure!(v, (na == rb) == (want_mixed == Ordering::Equal), sig("negref-mixed-eq"), "(-a) == b is {}", na == rb);
    let want_mixed2 = ma.cmp_val(&mb.abs());
    ensure!(v, ra.cmp(&rb.abs()) == want_mixed2, sig("absref-mixed-cmp"), "a.cmp(|b|) = {} expected {}", ord_name(ra.cmp(&rb.abs())), ord_name(want_mixed2));
    let want_abs = ma.abs().cmp_val(&mb.abs());
    ensure!(v, ra.abs().cmp(&rb.abs()) == want_abs, sig("absref-cmp"), "|a|.cmp(|b|) = {} expected {}", ord_name(ra.abs().cmp(&rb.abs())), ord_name(want_abs));
    ensure!(v, (ra.abs() == rb.abs()) == (want_abs == Ordering::Equal), sig("absref-eq"), "|a| == |b| is {}", ra.abs() == rb.abs());
    // reflexivity
    ensure!(v, a == a.clone() && a.cmp(&a) == Ordering::Equal, sig("reflexive"), "a is not equal to itself");
    // max / min: the value must be the exact max / min
    let mx = std::cmp::max(a.clone(), b.clone());
    let mn = std::cmp::min(a.clone(), b.clone());
    let (emx, emn) = if want == Ordering::Less { (&mb, &ma) } else { (&ma, &mb) };
    ensure!(v, crate::conv::dec_of(&mx).eq_val(emx), sig("max"), "max(a,b) = {}", crate::conv::dec_of(&mx).show());
    ensure!(v, crate::conv::dec_of(&mn).eq_val(emn), sig("min"), "min(a,b) = {}", crate::conv::dec_of(&mn).show());
    v
}

#[derive(Clone, Debug, Hash, Serialize, Deserialize)]
pub struct SortCase {
    pub items: Vec<D>,
}

pub fn check_sort(c: &SortCase) -> Verdict {
    let mut xs: Vec<BigDecimal> = c.items.iter().map(|d| d.bd()).collect();
    let mut v = Verdict::pass(c.items.len() >= 3);
    xs.sort();
    // ordered
    for w in xs.windows(2) {
        let (x, y) = (crate::conv::dec_of(&w[0]), crate::conv::dec_of(&w[1]));
        ensure!(v, x.cmp_val(&y) != Ordering::Greater, "C02/sort-order", "sorted output has {} before {}", x.show(), y.show());
    }
    // permutation (by representation)
    let mut got: Vec<D> = xs.iter().map(D::of).collect();
    let mut want: Vec<D> = c.items.iter().map(|d| D::of(&d.bd())).collect();
    let key = |d: &D| (d.int.clone(), d.scale);
    got.sort_by_key(key);
    want.sort_by_key(key);
    ensure!(v, got == want, "C02/sort-permutation", "sorted output is not a permutation of the input");
    // the same through references
    {
        let owned: Vec<BigDecimal> = c.items.iter().map(|d| d.bd()).collect();
        let mut refs: Vec<bigdecimal::BigDecimalRef> = owned.iter().map(|x| x.to_ref()).collect();
        refs.sort();
        for w in refs.windows(2) {
            let (x, y) = (crate::conv::dec_of(&w[0].to_owned()), crate::conv::dec_of(&w[1].to_owned()));
            ensure!(v, x.cmp_val(&y) != Ordering::Greater, "C02/ref-sort-order", "sorted references have {} before {}", x.show(), y.show());
        }
        let mut got: Vec<D> = refs.iter().map(|r| D::of(&r.to_owned())).collect();
        got.sort_by_key(key);
        ensure!(v, got == want, "C02/ref-sort-permutation", "sorted references are not a permutation of the input");
        if let (Some(mx), Some(mn)) = (owned.iter().map(|x| x.to_ref()).max(), owned.iter().map(|x| x.to_ref()).min()) {
            let (mx, mn) = (crate::conv::dec_of(&mx.to_owned()), crate::conv::dec_of(&mn.to_owned()));
            for d in &c.items {
                let m = d.dec();
                ensure!(v, m.cmp_val(&mx) != Ordering::Greater, "C02/ref-iter-max", "{} exceeds reference iterator max {}", m.show(), mx.show());
                ensure!(v, m.cmp_val(&mn) != Ordering::Less, "C02/ref-iter-min", "{} below reference iterator min {}", m.show(), mn.show());
            }
        }
    }
    // max / min over the iterator
    if let (Some(mx), Some(mn)) = (c.items.iter().map(|d| d.bd()).max(), c.items.iter().map(|d| d.bd()).min()) {
        let (mx, mn) = (crate::conv::dec_of(&mx), crate::conv::dec_of(&mn));
        for d in &c.items {
            let m = d.dec();
            ensure!(v, m.cmp_val(&mx) != Ordering::Greater, "C02/iter-max", "{} exceeds iterator max {}", m.show(), mx.show());
            ensure!(v, m.cmp_val(&mn) != Ordering::Less, "C02/iter-min", "{} below iterator min {}", m.show(), mn.show());
        }
    }
    v
}

// ---------------------------------------------------------------- generators

/// variant: 0 twin, 1 = +1 unit on the finer operand, 2 = -1 unit
fn twin_pair(x: &BigUint, base_scale: i64, gap: u64, variant: u8, negative: bool, scaled_first: bool) -> CmpPair {
    let fine = {
        let mut y = x * BigUint::from(10u8).pow(gap as u32);
        match variant {
            1 => y += 1u8,
            2 => {
                if y > BigUint::from(0u8) {
                    y -= 1u8
                }
            }
            // neighbours that differ by a multiple of a power of two (all low limbs agree)
            3 => y += BigUint::from(1u8) << 32,
            4 => y += BigUint::from(3u8) << 64,
            5 => y += BigUint::from(1u8) << 96,
            6 => y += BigUint::from(5u8) << 128,
            7 => y += BigUint::from(1u8) << 192,
            _ => {}
        }
        y
    };
    let sgn = if negative { "-" } else { "" };
    let coarse = D::new(format!("{}{}", sgn, x), base_scale);
    let fine = D::new(format!("{}{}", sgn, fine), base_scale + gap as i64);
    if scaled_first {
        CmpPair { a: fine, b: coarse }
    } else {
        CmpPair { a: coarse, b: fine }
    }
}

/// a twin pair with a scale gap far beyond the sweep (kept compact: the operands have `gap` digits)
#[derive(Clone, Debug, Hash, Serialize, Deserialize)]
pub struct BigGap {
    pub x: String,
    pub gap: u64,
    pub variant: u8,
    pub negative: bool,
    pub scaled_first: bool,
}

pub fn check_biggap(c: &BigGap) -> Verdict {
    let x: BigUint = c.x.parse().unwrap();
    check_pair(&twin_pair(&x, 0, c.gap, c.variant, c.negative, c.scaled_first))
}

const QUICK_GAPS: &[u64] = &[1, 2, 3, 4, 5, 6, 7, 8, 9, 10, 11, 12, 13, 14, 15, 16, 17, 18, 19, 20, 21, 22, 30, 45, 60];

fn grid_make(i: u64, gaps: &[u64], words: &[u32]) -> Option<CmpPair> {
    let nw = words.len() as u64;
    let mut k = i;
    let gap = gaps[(k % gaps.len() as u64) as usize];
    k /= gaps.len() as u64;
    let variant = (k % 8) as u8;
    k /= 8;
    let negative = k % 2 == 1;
    k /= 2;
    // operand index: 0..nw one word, then nw*nw two words
    let x = if k < nw {
        BigUint::from(words[k as usize])
    } else {
        let k2 = k - nw;
        if k2 >= nw * nw {
            return None;
        }
        BigUint::from_slice(&[words[(k2 % nw) as usize], words[(k2 / nw) as usize]])
    };
    if x == BigUint::from(0u8) {
        return None;
    }
    let scaled_first = (i / 7) % 2 == 0;
    Some(twin_pair(&x, (i % 5) as i64 - 2, gap, variant, negative, scaled_first))
}

/// coefficients for the gap sweep: around powers of two and ten (bit-length pre-filters), small primes
fn sweep_coefficients() -> Vec<BigUint> {
    let mut v: Vec<BigUint> = Vec::new();
    for k in [0usize, 1, 2, 3, 4, 7, 10, 12, 13, 16, 31, 32, 33, 63, 64, 65, 100, 127, 128, 129, 200] {
        let p = BigUint::from(1u8) << k;
        v.push(p.clone());
        v.push(&p + 1u8);
        if k > 1 {
            v.push(&p - 1u8);
        }
    }
    for j in [1u32, 2, 5, 9, 19, 20, 38, 39] {
        let p = BigUint::from(10u8).pow(j);
        v.push(p.clone());
        v.push(&p - 1u8);
        v.push(&p + 1u8);
    }
    for n in [3u32, 5, 7, 9, 11, 99, 1025, 8193, 12345, 65537] {
        v.push(BigUint::from(n));
    }
    v.sort();
    v.dedup();
    v
}

fn twin_strategy(max_len: usize) -> BoxedStrategy<CmpPair> {
    (gen::digspec(max_len), 1u64..=60, 0..8u8, any::<bool>(), any::<bool>(), -50i64..50, 0..6u8)
        .prop_map(|(spec, gap, variant, neg, first, base, far)| {
            let x: BigUint = gen::digits_of(&spec).parse().unwrap();
            let x = if x == BigUint::from(0u8) { BigUint::from(1u8) } else { x };
            // occasionally a far gap (digit-wise path with long zero runs)
            let gap = if far == 0 { gap * 17 } else { gap };
            twin_pair(&x, base, gap, variant, neg, first)
        })
        .boxed()
}

/// same adjusted exponent, independent digits (the digits decide)
fn same_magnitude_strategy(max_len: usize) -> BoxedStrategy<CmpPair> {
    (gen::digspec(max_len), gen::digspec(max_len), -60i64..60, any::<bool>(), 0..8u8)
        .prop_map(|(sa, sb, scale, neg, tweak)| {
            let da = gen::digits_of(&sa);
            let mut db = gen::digits_of(&sb);
            if tweak < 3 {
                // share a long common prefix so the comparison is decided late
                let n = da.len().min(db.len());
                let keep = n - n / 8;
                db = format!("{}{}", &da[..keep], &db[keep..]);
            }
            let (da, db) = (if da == "0" { "1".to_string() } else { da }, if db == "0" { "1".to_string() } else { db });
            let sgn = if neg { "-" } else { "" };
            let a = D::new(format!("{}{}", sgn, da), scale);
            let b = D::new(format!("{}{}", sgn, db), scale + (db.len() as i64 - da.len() as i64));
            CmpPair { a, b }
        })
        .boxed()
}

fn free_strategy(max_len: usize) -> BoxedStrategy<CmpPair> {
    (gen::decimal(max_len, 10_000), gen::decimal(max_len, 10_000)).prop_map(|(a, b)| CmpPair { a, b }).boxed()
}

/// scales whose difference exceeds 2^63 (short digit strings), and other extreme scales
fn extreme_scale_strategy() -> BoxedStrategy<CmpPair> {
    let ext = prop_oneof![
        (0i64..8).prop_map(|d| i64::MIN + d),
        (0i64..8).prop_map(|d| i64::MAX - d),
        (-3i64..=3),
        (0i64..8).prop_map(|d| (1i64 << 62) + d),
        (0i64..8).prop_map(|d| -(1i64 << 62) - d),
        any::<i64>(),
    ];
    (gen::sdigits(30), ext.clone(), gen::sdigits(30), ext, 0..3u8)
        .prop_map(|(ia, sa, ib, sb, same)| {
            if same == 0 && ia != "0" && ib != "0" {
                // equal adjusted exponents at an extreme scale: the digits decide
                let la = ia.trim_start_matches('-').len() as i64;
                let lb = ib.trim_start_matches('-').len() as i64;
                if let Some(sb2) = sa.checked_add(lb - la) {
                    let ib2 = if ia.starts_with('-') == ib.starts_with('-') { ib.clone() } else if let Some(r) = ib.strip_prefix('-') { r.to_string() } else { format!("-{}", ib) };
                    return CmpPair { a: D::new(ia, sa), b: D::new(ib2, sb2) };
                }
            }
            CmpPair { a: D::new(ia, sa), b: D::new(ib, sb) }
        })
        .boxed()
}

/// values straddling 2^64 / 2^128 before and after scaling
fn straddle_strategy() -> BoxedStrategy<CmpPair> {
    (0..2u8, 0u32..=38, -3i64..=3, -3i64..=3, any::<bool>(), any::<bool>())
        .prop_map(|(which, g, da, db, neg, first)| {
            let limit: BigUint = if which == 0 { BigUint::from(1u8) << 64 } else { BigUint::from(1u8) << 128 };
            let p = BigUint::from(10u8).pow(g);
            // b * 10^g near the limit
            let bq = &limit / &p;
            let b = if db >= 0 { &bq + BigUint::from(db as u64) } else { &bq - BigUint::from((-db) as u64).min(bq.clone()) };
            let a = if da >= 0 { &limit + BigUint::from(da as u64) } else { &limit - BigUint::from((-da) as u64) };
            let b = if b == BigUint::from(0u8) { BigUint::from(1u8) } else { b };
            let sgn = if neg { "-" } else { "" };
            let x = D::new(format!("{}{}", sgn, a), g as i64);
            let y = D::new(format!("{}{}", sgn, b), 0);
            if first {
                CmpPair { a: x, b: y }
            } else {
                CmpPair { a: y, b: x }
            }
        })
        .boxed()
}

fn sort_strategy(max_len: usize) -> BoxedStrategy<SortCase> {
    // a few base values, each possibly re-represented, so that ties and near-ties occur
    (proptest::collection::vec(gen::decimal(max_len, 300), 1..5), proptest::collection::vec((any::<u16>(), 0u8..4, 0u64..25), 2..12))
        .prop_map(|(bases, picks)| {
            let items = picks
                .into_iter()
                .map(|(sel, how, g)| {
                    let b = &bases[gen::pick_idx(sel, bases.len())];
                    match how {
                        0 => b.clone(),
                        1 => {
                            if b.is_zero() {
                                D::new("0", b.scale + g as i64)
                            } else {
                                D::new(format!("{}{}", b.int, "0".repeat(g as usize)), b.scale + g as i64)
                            }
                        }
                        2 => b.negated(),
                        _ => {
                            // neighbour: +1 unit at a finer scale
                            let m: num_bigint::BigInt = crate::conv::bigint(&b.int) * num_bigint::BigInt::from(10u8).pow(g as u32) + 1;
                            D::new(m.to_string(), b.scale + g as i64)
                        }
                    }
                })
                .collect();
            SortCase { items }
        })
        .boxed()
}

pub fn run(ctx: &Ctx) {
    let t = ctx.tier;
    let words = boundary_words();
    let nw = words.len() as u64;
    let all_gaps: Vec<u64> = (1..=60).collect();
    let gaps: Vec<u64> = if t == crate::engine::Tier::Quick { QUICK_GAPS.to_vec() } else { all_gaps };
    let total = gaps.len() as u64 * 8 * 2 * (nw + nw * nw);
    let note = format!(
        "EXHAUSTIVE over: gaps {:?} x {{twin, +1, -1, +2^32, +3*2^64, +2^96, +5*2^128, +2^192}} x {{+,-}} x all 1-word and 2-word operands from {} boundary words",
        if gaps.len() > 30 { vec![1, 60] } else { gaps.clone() },
        nw
    );
    {
        let gaps = gaps.clone();
        let words = words.clone();
        ctx.enumerated("grid-word-twins", "pair", total, true, &note, move |i| grid_make(i, &gaps, &words), check_pair);
    }
    {
        let coeffs = sweep_coefficients();
        let nc = coeffs.len() as u64;
        // the checked build repeats only the lower part of the sweep (cost grows with the square of the gap)
        let max_gap = if ctx.flavour == "chk" { t.pick(500u64, 1500) } else { t.pick(1500u64, 5_000) };
        ctx.enumerated(
            "gap-sweep",
            "pair",
            max_gap * nc * 8,
            true,
            &format!("EXHAUSTIVE: every scale gap 1..={} x {} coefficients around powers of two / ten x {{twin, +1, -1, +2^32, +3*2^64, +2^96, +5*2^128, +2^192}} (sign and side drawn from a hash of the index)", max_gap, nc),
            move |i| {
                let gap = 1 + i % max_gap;
                let k = i / max_gap;
                let x = &coeffs[(k % nc) as usize];
                let variant = (k / nc) as u8;
                // sign and side from a hash of the index, so that every gap meets every combination
                let h = SplitMix(i).next();
                Some(twin_pair(x, (i % 7) as i64 - 3, gap, variant, h & 1 == 1, h & 2 == 0))
            },
            check_pair,
        );
    }
    {
        // value-equal and neighbouring pairs whose scales differ by 10^4 .. 10^6: the only inputs on which the
        // float estimate of floor(gap * log2 10) in the early-out decides (it must never be too large)
        let gaps: Vec<u64> = t.pick(vec![10_000, 30_103, 100_000], vec![10_000, 16_384, 30_103, 65_536, 100_000, 262_144, 301_030, 1_000_000]);
        // plus the gaps at which an estimate of g*log2(10) is most fragile: those whose product has the smallest fractional part (the
        // denominators of the convergents and semi-convergents of log2 10: 21306, 97879, 119185, 195758, ...), computed here in exact
        // integer arithmetic from 45 decimals of log2 10, and the ones with the largest fractional part
        let mut gaps = gaps;
        {
            let l = BigUint::parse_bytes(b"3321928094887362347870319429489390175864831393", 10).unwrap(); // log2(10) * 10^45
            let one = BigUint::from(10u8).pow(45);
            let hi = t.pick(250_000u64, 1_000_000);
            let mut fr: Vec<(BigUint, u64)> = (10_000..=hi).map(|g| ((&l * BigUint::from(g)) % &one, g)).collect();
            fr.sort();
            let k = t.pick(4usize, 12);
            for (_, g) in fr.iter().take(k).chain(fr.iter().rev().take(k / 2)) {
                if !gaps.contains(g) {
                    gaps.push(*g);
                }
            }
        }
        let mut cases = Vec::new();
        for (gi, g) in gaps.iter().enumerate() {
            let xs: &[&str] = t.pick(&["1", "9", "18446744073709551615"], &["1", "3", "9", "18446744073709551615", "340282366920938463463374607431768211456"]);
            for (xi, x) in xs.iter().enumerate() {
                for variant in 0..3u8 {
                    let k = gi + xi + variant as usize;
                    cases.push(BigGap { x: x.to_string(), gap: *g, variant, negative: k % 2 == 1, scaled_first: (k / 2) % 2 == 0 });
                }
            }
        }
        // the checked build is several times slower on operands of 10^5 digits: it takes the two smallest gaps only
        let cases: Vec<BigGap> = if ctx.flavour == "chk" { cases.into_iter().filter(|c| c.gap <= 30_103).collect() } else { cases };
        // (enumerated, not listed: the cases are independent and the large ones take seconds each, so they are spread over the threads)
        let total = cases.len() as u64;
        ctx.enumerated("huge-gaps", "biggap", total, true, "EXHAUSTIVE over the listed tuples: x vs x*10^g (twin, +1, -1) for g from 10^4 to 10^6 (quick: 10^5) and for the gaps up to 10^6 (quick: 250000) whose g*log2(10) is closest to an integer from above (12; quick 4) and from below (6; quick 2), x in {1, 3, 9, 2^64-1, 2^128} (quick: 1, 9, 2^64-1): scale gaps far beyond the sweep", move |i| cases.get(i as usize).cloned(), check_biggap);
    }
    let max_len = t.pick(300usize, 3000);
    let n = t.pick(200_000u64, 2_000_000);
    ctx.generated("twins-and-neighbours", "pair", n, "x vs x*10^g (+-1), g in 1..60 and multiples of 17 up to 1020, all digit shapes", move || twin_strategy(max_len), check_pair);
    ctx.generated("same-magnitude", "pair", n, "independent digits, equal adjusted exponents, long common prefixes", move || same_magnitude_strategy(max_len), check_pair);
    ctx.generated("free-pairs", "pair", n / 2, "independent random decimals", move || free_strategy(max_len), check_pair);
    ctx.generated("extreme-scales", "pair", n / 2, "scales at i64::MIN/MAX, +-2^62, random i64: differences beyond 2^63", extreme_scale_strategy, check_pair);
    ctx.generated("straddle-u64-u128", "pair", t.pick(100_000, 500_000), "a = 2^64|2^128 + da at scale g vs b = floor(limit/10^g) + db", straddle_strategy, check_pair);
    ctx.generated("sort-vectors", "sort", t.pick(50_000, 500_000), "vectors of 2..12 decimals with twins, negations and neighbours; sort/max/min", move || sort_strategy(max_len.min(200)), check_sort);
    let _ = SplitMix(0);
    let _ = DigSpec { shape: 0, len: 0, head: vec![], seed: 0, aux: 0 };
}
