//! C03 — Hash agrees with equality.

use crate::engine::{Ctx, Verdict};
use crate::ensure;
use crate::gen::{self, D};
use bigdecimal::BigDecimal;
use num_bigint::{BigInt, BigUint, Sign};
use proptest::prelude::*;
use serde::{Deserialize, Serialize};
use std::collections::hash_map::DefaultHasher;
use std::collections::HashSet;
use std::hash::{Hash, Hasher};

pub const RULE: &str = "case = two representations (int_a, scale_a), (int_b, scale_b) of the same value, built by appending different numbers of trailing zeros to a canonical value (equality asserted by the exact oracle, not assumed); non-trivial = the representations differ; distinct = structural hash of the pair";
pub const EXPLANATION: &str = "Checked: identical byte stream into a recording Hasher, identical DefaultHasher and SipHasher13 (siphasher crate) outputs, HashSet membership of the twin, no panic; on release and on release+debug-assertions builds. |scale| <= 10^5 as in the property's quantifier. The enumerated stage covers every canonical |n| < 2000 at scales -6..6 with 0..8 extra zeros on either side.";

#[derive(Clone, Debug, Hash, Serialize, Deserialize)]
pub struct Twin {
    pub a: D,
    pub b: D,
    /// build a's zero through BigInt::from_biguint(Sign::Minus, 0) when it is zero
    pub minus_zero: bool,
}

struct Rec(Vec<u8>);
impl Hasher for Rec {
    fn finish(&self) -> u64 {
        0
    }
    fn write(&mut self, bytes: &[u8]) {
        self.0.extend_from_slice(bytes);
        self.0.push(0xfe); // keep write boundaries visible
    }
}

fn stream(x: &BigDecimal) -> Vec<u8> {
    let mut r = Rec(Vec::new());
    x.hash(&mut r);
    r.0
}

fn h_default(x: &BigDecimal) -> u64 {
    let mut h = DefaultHasher::new();
    x.hash(&mut h);
    h.finish()
}

fn h_sip13(x: &BigDecimal) -> u64 {
    let mut h = siphasher::sip::SipHasher13::new_with_keys(0x0123456789abcdef, 0xfedcba9876543210);
    x.hash(&mut h);
    h.finish()
}

/// `minus_zero`: a zero reached the way a user gets a "negative zero" (num-bigint has no signed zero, so every one of
/// these must be indistinguishable from a plain zero): negating a zero, cancelling x - x, parsing "-0.00"
fn build(d: &D, minus_zero: bool) -> BigDecimal {
    if d.is_zero() && minus_zero {
        match d.scale.rem_euclid(4) {
            0 => BigDecimal::new(BigInt::from_biguint(Sign::Minus, BigUint::from(0u8)), d.scale),
            1 => -BigDecimal::new(BigInt::from(0), d.scale),
            2 => {
                let x = BigDecimal::new(BigInt::from(-7), d.scale);
                &x - &x
            }
            _ => {
                if (0..=2000).contains(&d.scale) {
                    format!("-0.{}", "0".repeat(d.scale as usize)).parse().unwrap()
                } else {
                    BigDecimal::new(BigInt::from(-1), d.scale) * BigDecimal::new(BigInt::from(0), 0)
                }
            }
        }
    } else {
        d.bd()
    }
}

pub fn check_twin(c: &Twin) -> Verdict {
    if c.a.scale.unsigned_abs() > 100_000 || c.b.scale.unsigned_abs() > 100_000 {
        return Verdict::inconclusive("scale outside the property's quantifier (|scale| <= 10^5)");
    }
    let (ma, mb) = (c.a.dec(), c.b.dec());
    if !ma.eq_val(&mb) {
        return Verdict::inconclusive("generator produced unequal values (not a case of this property)");
    }
    let a = build(&c.a, c.minus_zero);
    let b = build(&c.b, false);
    let mut v = Verdict::pass(c.a != c.b);
    v.labels.push(if ma.is_zero() {
        "zero"
    } else if c.a.scale < 0 || c.b.scale < 0 {
        "negative-scale"
    } else {
        "positive-scale"
    });
    let (sa, sb) = (stream(&a), stream(&b));
    ensure!(v, sa == sb, "C03/stream-differs", "equal values feed different bytes to the Hasher: {:?} vs {:?}", String::from_utf8_lossy(&sa), String::from_utf8_lossy(&sb));
    ensure!(v, h_default(&a) == h_default(&b), "C03/defaulthasher-differs", "DefaultHasher outputs differ");
    ensure!(v, h_sip13(&a) == h_sip13(&b), "C03/siphasher13-differs", "SipHasher13 outputs differ");
    let mut set = HashSet::new();
    set.insert(a.clone());
    // membership needs Hash and Eq to agree; Eq itself is the subject of C02, so only
    // report here when Eq says equal (otherwise C02 reports)
    if a == b {
        ensure!(v, set.contains(&b), "C03/hashset-miss", "HashSet containing a does not contain the equal b");
    }
    v
}

fn mk(canon: &str, neg: bool, scale: i64, za: u64, zb: u64, minus_zero: bool) -> Twin {
    let sgn = if neg && canon != "0" { "-" } else { "" };
    let rep = |z: u64| {
        if canon == "0" {
            D::new("0", scale + z as i64)
        } else {
            D::new(format!("{}{}{}", sgn, canon, "0".repeat(z as usize)), scale + z as i64)
        }
    };
    Twin { a: rep(za), b: rep(zb), minus_zero }
}

fn grid(i: u64) -> Option<Twin> {
    let mut k = i;
    let zb = k % 9;
    k /= 9;
    let za = k % 9;
    k /= 9;
    let scale = (k % 13) as i64 - 6;
    k /= 13;
    let neg = k % 2 == 1;
    k /= 2;
    let n = k; // 0..2000
    if n >= 2000 {
        return None;
    }
    // canonical values only (no trailing zero) so every value is visited once per scale
    if n != 0 && n % 10 == 0 {
        return None;
    }
    if n == 0 && neg {
        return Some(mk("0", false, scale, za, zb, true));
    }
    Some(mk(&n.to_string(), neg, scale, za, zb, false))
}

fn twin_strategy(max_len: usize) -> BoxedStrategy<Twin> {
    let scale = prop_oneof![
        5 => -60i64..=60,
        2 => -2000i64..=2000,
        1 => -99_000i64..=99_000,
    ];
    let z = prop_oneof![6 => 0u64..=60, 1 => 0u64..=900];
    (gen::udigits(max_len), any::<bool>(), scale, z.clone(), z, 0..12u8, any::<bool>())
        .prop_map(|(digits, neg, scale, za, zb, zero, minus_zero)| {
            let canon = if zero == 0 {
                "0".to_string()
            } else {
                let t = digits.trim_end_matches('0');
                if t.is_empty() {
                    "1".to_string()
                } else {
                    t.to_string()
                }
            };
            // keep every resulting scale inside [-10^5, 10^5]
            let scale = scale.clamp(-100_000, 100_000 - za.max(zb) as i64);
            mk(&canon, neg, scale, za, zb, minus_zero)
        })
        .boxed()
}

/// limb-structured integers (zero / all-ones 64-bit limbs) that end in decimal zeros, against their
/// re-representations: the digits are decimal-random but the binary limbs are not
fn structured_strategy() -> BoxedStrategy<Twin> {
    (gen::digspec_shapes(1200, &[15, 15, 13, 12, 9]), any::<bool>(), -40i64..=400, 0u64..=40, 0..3u8)
        .prop_map(|(spec, neg, scale, zb, keep)| {
            let n = gen::digits_of(&spec);
            let t = n.trim_end_matches('0');
            let canon = if t.is_empty() { "1" } else { t };
            let tz = (n.len() - canon.len()) as u64;
            // a = the structured integer exactly as generated (canon followed by its own tz zeros)
            let za = if keep == 0 { tz / 2 } else { tz };
            mk(canon, neg, scale, za, zb, false)
        })
        .boxed()
}

/// zero with scales across the whole allowed range
fn zero_strategy() -> BoxedStrategy<Twin> {
    (-100_000i64..=100_000, -100_000i64..=100_000, any::<bool>())
        .prop_map(|(sa, sb, mz)| Twin { a: D::new("0", sa), b: D::new("0", sb), minus_zero: mz })
        .boxed()
}

/// negative scale versus written-out zeros, long zero runs
fn negscale_strategy(max_len: usize) -> BoxedStrategy<Twin> {
    (gen::udigits(max_len), any::<bool>(), 1u64..=3000, 0u64..=40, 0..4u8)
        .prop_map(|(digits, neg, run, extra, far)| {
            let t = digits.trim_end_matches('0');
            let canon = if t.is_empty() { "1" } else { t };
            let run = if far == 0 { run * 30 } else { run }; // up to 90 000 zeros
            // a = canon e+run (negative scale), b = canon followed by run+extra zeros at scale extra
            let sgn = if neg { "-" } else { "" };
            let a = D::new(format!("{}{}", sgn, canon), -(run as i64));
            let b = D::new(format!("{}{}{}", sgn, canon, "0".repeat((run + extra) as usize)), extra as i64);
            Twin { a, b, minus_zero: false }
        })
        .boxed()
}

/// (c, scale -k) against the same value with its zeros written out, where c * 10^k lands around a machine-word limit (2^32, 2^64, 2^128):
/// a hash that multiplies the zeros in with word arithmetic overflows exactly there, for a handful of (c, k) per k.
fn word_product_strategy() -> BoxedStrategy<Twin> {
    (prop_oneof![Just(32u32), Just(64), Just(64), Just(128)], 1u32..=38, any::<u64>(), any::<u64>(), any::<bool>(), 0..4u8, -3i64..=3)
        .prop_map(|(w, k, r1, r2, neg, how, ds)| {
            let k = k.min(w * 3 / 10); // 10^k below the word limit
            let k = k.max(1);
            let tk = BigInt::from(10u8).pow(k);
            let lo = ((BigInt::from(1) << (w - 1)) / &tk).max(BigInt::from(1));
            let hi = (BigInt::from(1) << (w + 2)) / &tk;
            let span = &hi - &lo + BigInt::from(1);
            let c = &lo + (BigInt::from(r1) * BigInt::from(r2 | 1)) % &span;
            let zb = match how {
                0 => k as u64,
                1 => k as u64 + 1,
                2 => 1 + r2 % (k as u64),
                _ => k as u64 + r2 % 40,
            };
            mk(&c.to_string(), neg, -(k as i64) + ds, 0, zb, false)
        })
        .boxed()
}

pub fn run(ctx: &Ctx) {
    let t = ctx.tier;
    ctx.enumerated(
        "grid-small",
        "twin",
        9 * 9 * 13 * 2 * 2000,
        true,
        "EXHAUSTIVE over canonical |n| < 2000 (n without trailing zero, plus zero, also reached by negation / cancellation / parsing \"-0.0\" / multiplying a negative by zero) x scale -6..6 x 0..8 extra zeros on each side",
        grid,
        check_twin,
    );
    let max_z = t.pick(2500u64, 10_000);
    ctx.enumerated(
        "zero-run-sweep",
        "twin",
        max_z * 12,
        true,
        &format!("EXHAUSTIVE: every number of extra trailing zeros 1..={} on one side x 6 canonical values x both signs", max_z),
        move |i| {
            let z = 1 + i % max_z;
            let k = i / max_z;
            let canon = ["1", "2", "7", "12345", "99999999999999999999", "340282366920938463463374607431768211457"][(k % 6) as usize];
            Some(mk(canon, k / 6 == 1, (i % 11) as i64 - 5, z, (i % 3), false))
        },
        check_twin,
    );
    let max_len = t.pick(300usize, 1500);
    let n = t.pick(200_000u64, 5_000_000);
    ctx.generated("twins", "twin", n, "canonical value x scale in +-60 / +-2000 / +-99000 x 0..60 (..900) extra zeros each", move || twin_strategy(max_len), check_twin);
    ctx.generated("limb-structured", "twin", n / 2, "integers built from zero / all-ones / random 64-bit limbs and forced to end in 0..4 decimal zeros, all-ones limbs, near powers of two, boundary words; against re-representations", structured_strategy, check_twin);
    ctx.generated("zeros", "twin", n / 4, "zero with two scales anywhere in [-10^5, 10^5], also zeros reached by negation, x - x, \"-0.00\" and -1 * 0", zero_strategy, check_twin);
    ctx.generated("negscale-vs-written", "twin", n / 16, "n e+k (negative scale) versus n followed by k (+extra) written zeros, k up to 90000", move || negscale_strategy(max_len.min(300)), check_twin);
    ctx.generated("word-overflow-products", "twin", n / 2, "(c, scale -k +-3) vs c followed by written zeros, with c*10^k anywhere in [2^(w-1), 2^(w+2)) for w = 32, 64, 128 and every k with 10^k below the word limit", word_product_strategy, check_twin);
}
