//! C01 — addition, subtraction and multiplication are exact for every operand form.

use crate::conv::{bigint, dec_of};
use crate::engine::{Ctx, Verdict};
use crate::ensure;
use crate::gen::{self, gap_label, DigSpec, SplitMix, D};
use bdoracle::Dec;
use bigdecimal::{BigDecimal, BigDecimalRef, Signed};
use num_bigint::BigInt;
use proptest::prelude::*;
use serde::{Deserialize, Serialize};

pub const RULE: &str = "case = operand tuple (a, b) [or (a, primitive), (a, BigInt)] pushed through EVERY applicable overload of + - * (and double/half/square/cube/neg/abs/Sum); non-trivial = both operands non-zero and (scale gap != 0 or an operand has > 19 digits or the primitive operand is a type extreme); distinct = structural hash of the operand tuple";
pub const EXPLANATION: &str = "Each result is compared, by exact value, with (BigInt, scale) model arithmetic that shares no code with the library. Grid stage crosses every scale gap 0..45, 17..22, 586..593 with digit shapes and sign pairs; generated stages draw lengths log-uniformly up to the tier limit and gaps up to 10^4.";

type FDD = fn(&BigDecimal, &BigDecimal) -> BigDecimal;

fn r(x: &BigDecimal) -> BigDecimalRef<'_> {
    x.to_ref()
}

/// (name, op, f): op 0 = add, 1 = sub, 2 = mul
pub fn dd_table() -> Vec<(&'static str, u8, FDD)> {
    let mut t: Vec<(&'static str, u8, FDD)> = Vec::new();
    // --- add
    t.push(("BD+BD", 0, |a, b| a.clone() + b.clone()));
    t.push(("BD+&BD", 0, |a, b| a.clone() + b));
    t.push(("BD+Ref", 0, |a, b| a.clone() + r(b)));
    t.push(("&BD+BD", 0, |a, b| a + b.clone()));
    t.push(("&BD+&BD", 0, |a, b| a + b));
    t.push(("&BD+Ref", 0, |a, b| a + r(b)));
    t.push(("Ref+BD", 0, |a, b| r(a) + b.clone()));
    t.push(("Ref+&BD", 0, |a, b| r(a) + b));
    t.push(("Ref+Ref", 0, |a, b| r(a) + r(b)));
    t.push(("BD+=BD", 0, |a, b| {
        let mut x = a.clone();
        x += b.clone();
        x
    }));
    t.push(("BD+=&BD", 0, |a, b| {
        let mut x = a.clone();
        x += b;
        x
    }));
    t.push(("BD+=Ref", 0, |a, b| {
        let mut x = a.clone();
        x += r(b);
        x
    }));
    // --- sub
    t.push(("BD-BD", 1, |a, b| a.clone() - b.clone()));
    t.push(("BD-&BD", 1, |a, b| a.clone() - b));
    t.push(("BD-Ref", 1, |a, b| a.clone() - r(b)));
    t.push(("&BD-BD", 1, |a, b| a - b.clone()));
    t.push(("&BD-&BD", 1, |a, b| a - b));
    t.push(("&BD-Ref", 1, |a, b| a - r(b)));
    t.push(("Ref-BD", 1, |a, b| r(a) - b.clone()));
    t.push(("Ref-&BD", 1, |a, b| r(a) - b));
    t.push(("Ref-Ref", 1, |a, b| r(a) - r(b)));
    t.push(("BD-=BD", 1, |a, b| {
        let mut x = a.clone();
        x -= b.clone();
        x
    }));
    t.push(("BD-=&BD", 1, |a, b| {
        let mut x = a.clone();
        x -= b;
        x
    }));
    t.push(("BD-=Ref", 1, |a, b| {
        let mut x = a.clone();
        x -= r(b);
        x
    }));
    // --- references whose sign was flipped without touching the digits (op 3: -a + b, 4: a + b via a - (-b), 5: -a - b)
    t.push(("negRef+BD", 3, |a, b| (-r(a)) + b.clone()));
    t.push(("negRef+&BD", 3, |a, b| (-r(a)) + b));
    t.push(("negRef+Ref", 3, |a, b| (-r(a)) + r(b)));
    t.push(("BD+=negRef(a)", 3, |a, b| {
        let mut x = b.clone();
        x += -r(a);
        x
    }));
    t.push(("Ref-negRef", 4, |a, b| r(a) - (-r(b))));
    t.push(("BD-negRef", 4, |a, b| a.clone() - (-r(b))));
    t.push(("&BD-negRef", 4, |a, b| a - (-r(b))));
    t.push(("BD-=negRef", 4, |a, b| {
        let mut x = a.clone();
        x -= -r(b);
        x
    }));
    t.push(("negRef-BD", 5, |a, b| (-r(a)) - b.clone()));
    t.push(("negRef-Ref", 5, |a, b| (-r(a)) - r(b)));
    t.push(("absRef+absRef", 6, |a, b| r(a).abs() + r(b).abs()));
    // --- mul
    t.push(("BD*BD", 2, |a, b| a.clone() * b.clone()));
    t.push(("BD*&BD", 2, |a, b| a.clone() * b));
    t.push(("&BD*BD", 2, |a, b| a * b.clone()));
    t.push(("&BD*&BD", 2, |a, b| a * b));
    t.push(("BD*=BD", 2, |a, b| {
        let mut x = a.clone();
        x *= b.clone();
        x
    }));
    t.push(("BD*=&BD", 2, |a, b| {
        let mut x = a.clone();
        x *= b;
        x
    }));
    t
}

type FDI = fn(&BigDecimal, &BigInt) -> BigDecimal;

/// overloads with a BigInt operand; op 0 add, 1 sub (a - n), 2 mul, 3 rsub (n - a)
pub fn di_table() -> Vec<(&'static str, u8, FDI)> {
    let mut t: Vec<(&'static str, u8, FDI)> = Vec::new();
    t.push(("BD+BigInt", 0, |a, n| a.clone() + n.clone()));
    t.push(("&BD+BigInt", 0, |a, n| a + n.clone()));
    t.push(("Ref+BigInt", 0, |a, n| r(a) + n.clone()));
    t.push(("BD+&BigInt", 0, |a, n| a.clone() + n));
    t.push(("&BD+&BigInt", 0, |a, n| a + n));
    t.push(("Ref+&BigInt", 0, |a, n| r(a) + n));
    t.push(("BigInt+BD", 0, |a, n| n.clone() + a.clone()));
    t.push(("BigInt+&BD", 0, |a, n| n.clone() + a));
    t.push(("BigInt+Ref", 0, |a, n| n.clone() + r(a)));
    t.push(("&BigInt+BD", 0, |a, n| n + a.clone()));
    t.push(("&BigInt+&BD", 0, |a, n| n + a));
    t.push(("&BigInt+Ref", 0, |a, n| n + r(a)));
    t.push(("BD+=BigInt", 0, |a, n| {
        let mut x = a.clone();
        x += n.clone();
        x
    }));
    t.push(("BD+=&BigInt", 0, |a, n| {
        let mut x = a.clone();
        x += n;
        x
    }));
    t.push(("BD-BigInt", 1, |a, n| a.clone() - n.clone()));
    t.push(("&BD-BigInt", 1, |a, n| a - n.clone()));
    t.push(("Ref-BigInt", 1, |a, n| r(a) - n.clone()));
    t.push(("BD-&BigInt", 1, |a, n| a.clone() - n));
    t.push(("&BD-&BigInt", 1, |a, n| a - n));
    t.push(("Ref-&BigInt", 1, |a, n| r(a) - n));
    t.push(("BD-=BigInt", 1, |a, n| {
        let mut x = a.clone();
        x -= n.clone();
        x
    }));
    t.push(("BD-=&BigInt", 1, |a, n| {
        let mut x = a.clone();
        x -= n;
        x
    }));
    t.push(("BigInt-BD", 3, |a, n| n.clone() - a.clone()));
    t.push(("&BigInt-BD", 3, |a, n| n - a.clone()));
    t.push(("BigInt-Ref", 3, |a, n| n.clone() - r(a)));
    t.push(("&BigInt-Ref", 3, |a, n| n - r(a)));
    t.push(("BD*BigInt", 2, |a, n| a.clone() * n.clone()));
    t.push(("BD*&BigInt", 2, |a, n| a.clone() * n));
    t.push(("&BD*BigInt", 2, |a, n| a * n.clone()));
    t.push(("&BD*&BigInt", 2, |a, n| a * n));
    t.push(("BigInt*BD", 2, |a, n| n.clone() * a.clone()));
    t.push(("&BigInt*BD", 2, |a, n| n * a.clone()));
    t.push(("&BigInt*&BD", 2, |a, n| n * a));
    t.push(("BigInt*&BD", 2, |a, n| n.clone() * a));
    t.push(("BD*=BigInt", 2, |a, n| {
        let mut x = a.clone();
        x *= n.clone();
        x
    }));
    t.push(("BD*=&BigInt", 2, |a, n| {
        let mut x = a.clone();
        x *= n;
        x
    }));
    t
}

/// all overloads with a primitive operand of type $t: returns Vec<(name, op, result)>
macro_rules! prim_ops {
    ($t:ty, $a:expr, $v:expr) => {{
        let a: &BigDecimal = $a;
        let v: $t = $v;
        let tn = stringify!($t);
        let mut out: Vec<(String, u8, BigDecimal)> = Vec::new();
        // add
        out.push((format!("BD+{}", tn), 0, a.clone() + v));
        out.push((format!("&BD+{}", tn), 0, a + v));
        out.push((format!("Ref+{}", tn), 0, a.to_ref() + v));
        out.push((format!("{}+BD", tn), 0, v + a.clone()));
        out.push((format!("{}+&BD", tn), 0, v + a));
        out.push((format!("BD+&{}", tn), 0, a.clone() + &v));
        out.push((format!("&BD+&{}", tn), 0, a + &v));
        out.push((format!("Ref+&{}", tn), 0, a.to_ref() + &v));
        out.push((format!("&{}+BD", tn), 0, &v + a.clone()));
        out.push((format!("&{}+&BD", tn), 0, &v + a));
        out.push((format!("BD+={}", tn), 0, {
            let mut x = a.clone();
            x += v;
            x
        }));
        out.push((format!("BD+=&{}", tn), 0, {
            let mut x = a.clone();
            x += &v;
            x
        }));
        // sub
        out.push((format!("BD-{}", tn), 1, a.clone() - v));
        out.push((format!("&BD-{}", tn), 1, a - v));
        out.push((format!("{}-BD", tn), 3, v - a.clone()));
        out.push((format!("{}-&BD", tn), 3, v - a));
        out.push((format!("BD-&{}", tn), 1, a.clone() - &v));
        out.push((format!("&BD-&{}", tn), 1, a - &v));
        out.push((format!("&{}-BD", tn), 3, &v - a.clone()));
        out.push((format!("&{}-&BD", tn), 3, &v - a));
        out.push((format!("BD-={}", tn), 1, {
            let mut x = a.clone();
            x -= v;
            x
        }));
        out.push((format!("BD-=&{}", tn), 1, {
            let mut x = a.clone();
            x -= &v;
            x
        }));
        // mul
        out.push((format!("BD*{}", tn), 2, a.clone() * v));
        out.push((format!("&BD*{}", tn), 2, a * v));
        out.push((format!("{}*BD", tn), 2, v * a.clone()));
        out.push((format!("{}*&BD", tn), 2, v * a));
        out.push((format!("BD*&{}", tn), 2, a.clone() * &v));
        out.push((format!("&BD*&{}", tn), 2, a * &v));
        out.push((format!("&{}*BD", tn), 2, &v * a.clone()));
        out.push((format!("&{}*&BD", tn), 2, &v * a));
        out.push((format!("BD*={}", tn), 2, {
            let mut x = a.clone();
            x *= v;
            x
        }));
        out.push((format!("BD*=&{}", tn), 2, {
            let mut x = a.clone();
            x *= &v;
            x
        }));
        out
    }};
}

pub const PRIM_TYPES: [&str; 10] = ["u8", "u16", "u32", "u64", "u128", "i8", "i16", "i32", "i64", "i128"];

/// (min, max) of primitive type index as i128 strings (u128::MAX does not fit i128, so strings)
pub fn prim_bounds(ty: u8) -> (BigInt, BigInt) {
    match ty {
        0 => (BigInt::from(u8::MIN), BigInt::from(u8::MAX)),
        1 => (BigInt::from(u16::MIN), BigInt::from(u16::MAX)),
        2 => (BigInt::from(u32::MIN), BigInt::from(u32::MAX)),
        3 => (BigInt::from(u64::MIN), BigInt::from(u64::MAX)),
        4 => (BigInt::from(u128::MIN), BigInt::from(u128::MAX)),
        5 => (BigInt::from(i8::MIN), BigInt::from(i8::MAX)),
        6 => (BigInt::from(i16::MIN), BigInt::from(i16::MAX)),
        7 => (BigInt::from(i32::MIN), BigInt::from(i32::MAX)),
        8 => (BigInt::from(i64::MIN), BigInt::from(i64::MAX)),
        _ => (BigInt::from(i128::MIN), BigInt::from(i128::MAX)),
    }
}

pub fn prim_apply(a: &BigDecimal, ty: u8, val: &BigInt) -> Vec<(String, u8, BigDecimal)> {
    use num_traits::ToPrimitive;
    match ty {
        0 => prim_ops!(u8, a, val.to_u8().unwrap()),
        1 => prim_ops!(u16, a, val.to_u16().unwrap()),
        2 => prim_ops!(u32, a, val.to_u32().unwrap()),
        3 => prim_ops!(u64, a, val.to_u64().unwrap()),
        4 => prim_ops!(u128, a, val.to_u128().unwrap()),
        5 => prim_ops!(i8, a, val.to_i8().unwrap()),
        6 => prim_ops!(i16, a, val.to_i16().unwrap()),
        7 => prim_ops!(i32, a, val.to_i32().unwrap()),
        8 => prim_ops!(i64, a, val.to_i64().unwrap()),
        _ => prim_ops!(i128, a, val.to_i128().unwrap()),
    }
}

fn model(op: u8, a: &Dec, b: &Dec) -> Dec {
    match op {
        0 => a.add(b),
        1 => a.sub(b),
        2 => a.mul(b),
        _ => b.sub(a),
    }
}

#[derive(Clone, Debug, Hash, Serialize, Deserialize)]
pub struct Pair {
    pub a: D,
    pub b: D,
}

fn nontrivial_pair(a: &D, b: &D) -> bool {
    !a.is_zero() && !b.is_zero() && (a.scale != b.scale || a.ndigits() > 19 || b.ndigits() > 19)
}

pub fn check_pair(c: &Pair) -> Verdict {
    let a = c.a.bd();
    let b = c.b.bd();
    let ma = c.a.dec();
    let mb = c.b.dec();
    let gap = (c.a.scale as i128 - c.b.scale as i128).unsigned_abs() as u64;
    let mut v = Verdict::pass(nontrivial_pair(&c.a, &c.b)).label(gap_label(gap));
    if c.a.is_zero() || c.b.is_zero() {
        v.labels.push("has-zero");
    }
    special_labels(&mut v, &c.a, &ma);
    let expect = [ma.add(&mb), ma.sub(&mb), ma.mul(&mb), mb.sub(&ma), ma.add(&mb), ma.neg().sub(&mb), ma.abs().add(&mb.abs())];
    for (name, op, f) in dd_table() {
        let got = dec_of(&f(&a, &b));
        ensure!(v, got.eq_val(&expect[op as usize]), format!("C01/wrong-value:{}", name), "{}: got {} expected {}", name, got.show(), expect[op as usize].show());
    }
    // derived unary operations on a and on b
    let two = Dec::from_str_int("2", 0);
    for (a, ma) in [(&a, &ma), (&b, &mb)] {
    let un: Vec<(&str, Dec, Dec)> = vec![
        ("double", dec_of(&a.double()), ma.mul(&two)),
        ("half", dec_of(&a.half()), ma.half()),
        ("square", dec_of(&a.square()), ma.mul(&ma)),
        ("cube", dec_of(&a.cube()), ma.mul(&ma).mul(&ma)),
        ("neg BD", dec_of(&(-a.clone())), ma.neg()),
        ("neg &BD", dec_of(&(-a)), ma.neg()),
        ("neg Ref", dec_of(&(-a.to_ref()).to_owned()), ma.neg()),
        ("abs inherent", dec_of(&BigDecimal::abs(&a)), ma.abs()),
        ("abs Signed", dec_of(&<BigDecimal as Signed>::abs(&a)), ma.abs()),
        ("abs Ref", dec_of(&a.to_ref().abs().to_owned()), ma.abs()),
    ];
    for (name, got, want) in un {
        ensure!(v, got.eq_val(&want), format!("C01/wrong-value:{}", name), "{}: got {} expected {}", name, got.show(), want.show());
    }
    }
    // Sum over owned and borrowed iterators of [a, b, a]
    let want = ma.add(&mb).add(&ma);
    let s1: BigDecimal = vec![a.clone(), b.clone(), a.clone()].into_iter().sum();
    let s2: BigDecimal = [&a, &b, &a].iter().copied().sum();
    ensure!(v, dec_of(&s1).eq_val(&want), "C01/wrong-value:Sum owned", "sum owned got {} expected {}", dec_of(&s1).show(), want.show());
    ensure!(v, dec_of(&s2).eq_val(&want), "C01/wrong-value:Sum borrowed", "sum borrowed got {} expected {}", dec_of(&s2).show(), want.show());
    v
}

#[derive(Clone, Debug, Hash, Serialize, Deserialize)]
pub struct WithInt {
    pub a: D,
    pub n: String,
}

/// labels for operands in a special representation (shortcut branches of the library look at these)
fn special_labels(v: &mut Verdict, d: &D, m: &Dec) {
    if d.is_zero() && d.scale != 0 {
        v.labels.push("decimal-operand-zero-with-scale");
    } else if d.scale != 0 && m.abs().eq_val(&Dec::one()) {
        v.labels.push("decimal-operand-one-written-1.00");
    }
}

pub fn check_int(c: &WithInt) -> Verdict {
    let a = c.a.bd();
    let n = bigint(&c.n);
    let ma = c.a.dec();
    let mn = Dec::new(n.clone(), 0);
    let mut v = Verdict::pass(!c.a.is_zero() && c.n != "0" && (c.a.scale != 0 || c.a.ndigits() > 19 || c.n.len() > 19));
    v.labels.push(gap_label(c.a.scale.unsigned_abs()));
    special_labels(&mut v, &c.a, &ma);
    for (name, op, f) in di_table() {
        let got = dec_of(&f(&a, &n));
        let want = model(op, &ma, &mn);
        ensure!(v, got.eq_val(&want), format!("C01/wrong-value:{}", name), "{}: got {} expected {}", name, got.show(), want.show());
    }
    v
}

#[derive(Clone, Debug, Hash, Serialize, Deserialize)]
pub struct WithPrim {
    pub a: D,
    pub ty: u8,
    pub val: String,
}

pub fn check_prim(c: &WithPrim) -> Verdict {
    let a = c.a.bd();
    let n = bigint(&c.val);
    let ty = c.ty % 10;
    let (lo, hi) = prim_bounds(ty);
    if n < lo || n > hi {
        return Verdict::inconclusive("primitive value out of range for its type (malformed case)");
    }
    let extreme = n == lo || n == hi;
    let ma = c.a.dec();
    let mn = Dec::new(n.clone(), 0);
    let mut v = Verdict::pass(!c.a.is_zero() && (c.val != "0") && (c.a.scale != 0 || c.a.ndigits() > 19 || extreme));
    v.labels.push(PRIM_TYPES[ty as usize]);
    special_labels(&mut v, &c.a, &ma);
    if extreme {
        v.labels.push("prim-extreme");
    }
    for (name, op, got) in prim_apply(&a, ty, &n) {
        let got = dec_of(&got);
        let want = model(op, &ma, &mn);
        ensure!(v, got.eq_val(&want), format!("C01/wrong-value:{}", name), "{}: got {} expected {}", name, got.show(), want.show());
    }
    v
}

// ---------------------------------------------------------------- generators

const GRID_GAPS: [u64; 60] = {
    let mut g = [0u64; 60];
    let mut i = 0;
    while i < 46 {
        g[i] = i as u64;
        i += 1;
    }
    // 17..22 are inside 0..45 already; add the 590 switch neighbourhood and a few far gaps
    let extra = [586, 587, 588, 589, 590, 591, 592, 593, 607, 608, 1179, 1180, 4096, 10000];
    let mut j = 0;
    while j < 14 {
        g[46 + j] = extra[j];
        j += 1;
    }
    g
};

const GRID_SHAPES: [u8; 6] = [0, 1, 2, 13, 9, 12]; // uniform, nines, pow10, all-ones limbs, boundary words, near 2^k

/// grid: gap x shape_a x shape_b x signpair x lenclass
fn grid_total() -> u64 {
    60 * 6 * 6 * 4 * 3
}

fn grid_case(i: u64, seed: u64) -> Option<Pair> {
    let mut k = i;
    let gap = GRID_GAPS[(k % 60) as usize];
    k /= 60;
    let sa = GRID_SHAPES[(k % 6) as usize];
    k /= 6;
    let sb = GRID_SHAPES[(k % 6) as usize];
    k /= 6;
    let signs = k % 4;
    k /= 4;
    let lenclass = k % 3;
    let mut rng = SplitMix(seed ^ i.wrapping_mul(0x9e3779b97f4a7c15));
    let (la, lb) = match lenclass {
        0 => (1 + rng.below(19) as usize, 1 + rng.below(19) as usize),
        1 => (15 + rng.below(30) as usize, 15 + rng.below(30) as usize),
        _ => (40 + rng.below(600) as usize, 40 + rng.below(600) as usize),
    };
    let da = gen::digits_of(&DigSpec { shape: sa, len: la, head: vec![], seed: rng.next(), aux: rng.next() as u32 });
    let db = gen::digits_of(&DigSpec { shape: sb, len: lb, head: vec![], seed: rng.next(), aux: rng.next() as u32 });
    let base = rng.below(81) as i64 - 40;
    let (sca, scb) = if rng.below(2) == 0 { (base, base + gap as i64) } else { (base + gap as i64, base) };
    let a = D::new(if signs & 1 == 1 { format!("-{}", da) } else { da }, sca);
    let b = D::new(if signs & 2 == 2 { format!("-{}", db) } else { db }, scb);
    Some(Pair { a, b })
}

/// every gap 0..=max_gap with short operands of several shapes (boundaries of any gap-dependent fast path)
fn sweep_case(i: u64, max_gap: u64, seed: u64) -> Option<Pair> {
    let gap = i % (max_gap + 1);
    let k = i / (max_gap + 1);
    let mut rng = SplitMix(seed ^ i.wrapping_mul(0xd6e8feb86659fd93));
    // thorough enumerates all 144 shape/sign combinations per gap; quick (k < 4) draws them, with the sign pair
    // cycling through all four per gap
    let (sa, sb, signs) = if k < 4 && max_gap <= 3000 {
        (GRID_SHAPES[rng.below(6) as usize], GRID_SHAPES[rng.below(6) as usize], (k + gap) % 4)
    } else {
        (GRID_SHAPES[(k % 6) as usize], GRID_SHAPES[((k / 6) % 6) as usize], (k / 36 + k % 36 + gap) % 4)
    };
    let da = gen::digits_of(&DigSpec { shape: sa, len: 1 + rng.below(24) as usize, head: vec![], seed: rng.next(), aux: rng.next() as u32 });
    let db = gen::digits_of(&DigSpec { shape: sb, len: 1 + rng.below(24) as usize, head: vec![], seed: rng.next(), aux: rng.next() as u32 });
    let base = rng.below(41) as i64 - 20;
    let (sca, scb) = if rng.below(2) == 0 { (base, base + gap as i64) } else { (base + gap as i64, base) };
    let a = D::new(if signs & 1 == 1 { format!("-{}", da) } else { da }, sca);
    let b = D::new(if signs & 2 == 2 { format!("-{}", db) } else { db }, scb);
    Some(Pair { a, b })
}

/// special representations for the decimal operand: zero carrying a scale, +-one written as 1.00..0,
/// a power of ten written with a scale (10^k e-j), a value that equals one in its low limbs only, otherwise the generated decimal
fn specialise(a: D, sel: u8, r: u64) -> D {
    match sel {
        0 => D::new("0", (r % 81) as i64 - 40),
        1 | 2 => {
            let z = (r % 61) as usize;
            D::new(format!("{}1{}", if sel == 2 { "-" } else { "" }, "0".repeat(z)), z as i64)
        }
        4 => {
            // "almost one": 10^z + k * 2^64 (or 2^32, 2^128) written with scale z - equal to one in its low limbs only
            let z = 1 + (r % 19) as usize;
            let k = num_bigint::BigInt::from(1 + (r >> 8) % 7) << [64usize, 32, 128, 64][((r >> 16) % 4) as usize];
            let v = num_bigint::BigInt::from(10u8).pow(z as u32) + k;
            D::new(format!("{}{}", if r & (1 << 41) != 0 { "-" } else { "" }, v), z as i64)
        }
        3 => {
            let (k, j) = ((r % 50) as usize, ((r / 50) % 61) as i64 - 20);
            D::new(format!("{}1{}", if r & (1 << 40) != 0 { "-" } else { "" }, "0".repeat(k)), j)
        }
        _ => a,
    }
}

fn pair_strategy(max_len: usize) -> BoxedStrategy<Pair> {
    // a, then b placed relative to a by a generated gap; special representations mixed in
    (gen::decimal(max_len, 10_000), gen::sdigits(max_len), gen::gap_strategy(10_000), any::<bool>(), 0..10u8, 0..24u8, any::<u64>())
        .prop_map(|(a, bint, gap, dir, special, asel, r)| {
            let a = specialise(a, asel, r);
            let bscale = if dir { a.scale.saturating_add(gap as i64) } else { a.scale.saturating_sub(gap as i64) };
            let bscale = bscale.clamp(-10_000, 10_000);
            let b = match special {
                0 => D::new("0", bscale),                                                   // zero carrying any scale
                1 => D::new(format!("1{}", "0".repeat((gap % 40) as usize)), (gap % 40) as i64), // one written as 1.00
                2 => {
                    // twin of a: same value, more trailing zeros
                    let g = (gap % 700) as usize;
                    if a.is_zero() {
                        D::new("0", bscale)
                    } else {
                        D::new(format!("{}{}", a.int, "0".repeat(g)), a.scale + g as i64)
                    }
                }
                3 => a.negated(), // exact cancellation
                _ => D::new(bint, bscale),
            };
            Pair { a, b }
        })
        .boxed()
}

fn int_strategy(max_len: usize) -> BoxedStrategy<WithInt> {
    (gen::decimal(max_len, 10_000), gen::sdigits(200), 0..8u8, 0..16u8, any::<u64>())
        .prop_map(|(a, n, sp, asel, r)| {
            let a = specialise(a, asel, r);
            let n = match sp {
                0 => "0".to_string(),
                1 => "1".to_string(),
                2 => "-1".to_string(),
                _ => n,
            };
            WithInt { a, n }
        })
        .boxed()
}

fn prim_value(ty: u8, sel: u8, raw: u128) -> BigInt {
    let (lo, hi) = prim_bounds(ty);
    let span: BigInt = &hi - &lo + 1;
    let cand: Vec<BigInt> = vec![
        BigInt::from(0),
        BigInt::from(1),
        BigInt::from(-1),
        BigInt::from(2),
        BigInt::from(-2),
        lo.clone(),
        hi.clone(),
        &lo + 1,
        &hi - 1,
        BigInt::from(10),
        BigInt::from(100),
    ];
    let v = if (sel as usize) < cand.len() {
        cand[sel as usize].clone()
    } else if sel < 20 {
        // small magnitude
        BigInt::from((raw % 1000) as i64) * if raw & (1 << 20) != 0 { -1 } else { 1 }
    } else {
        &lo + (BigInt::from(raw) % &span)
    };
    if v < lo {
        lo
    } else if v > hi {
        hi
    } else {
        v
    }
}

fn prim_strategy(max_len: usize) -> BoxedStrategy<WithPrim> {
    (gen::decimal(max_len, 10_000), 0..10u8, 0..32u8, any::<u128>(), 0..16u8)
        .prop_map(|(a, ty, sel, raw, asel)| WithPrim { a: specialise(a, asel, (raw >> 64) as u64 ^ raw as u64), ty, val: prim_value(ty, sel, raw).to_string() })
        .boxed()
}

/// every (type, special value) x a few decimals
fn prim_grid(i: u64, seed: u64) -> Option<WithPrim> {
    let ty = (i % 10) as u8;
    let sel = ((i / 10) % 11) as u8;
    let k = i / 110;
    let mut rng = SplitMix(seed ^ i.wrapping_mul(0x2545f4914f6cdd1d));
    let shape = (k % 12) as u8;
    let len = 1 + rng.below(60) as usize;
    let d = gen::digits_of(&DigSpec { shape, len, head: vec![], seed: rng.next(), aux: rng.next() as u32 });
    let scale = [0i64, 0, 1, -1, 2, 19, 20, -20, 45, -3][(k / 12 % 10) as usize];
    let neg = rng.below(2) == 1;
    let a = D::new(if neg && d != "0" { format!("-{}", d) } else { d }, scale);
    Some(WithPrim { a, ty, val: prim_value(ty, sel, 0).to_string() })
}

pub fn run(ctx: &Ctx) {
    let t = ctx.tier;
    let seed = ctx.seed;
    // the checked build (debug assertions, overflow checks) repeats the grids once in the quick tier
    let reps = if ctx.flavour == "chk" { t.pick(1u64, 10) } else { t.pick(3u64, 30) };
    ctx.enumerated(
        "grid-gaps",
        "pair",
        grid_total() * reps,
        false,
        "gap in {0..45, 586..593, 607, 608, 1179, 1180, 4096, 10000} x 6x6 digit shapes x 4 sign pairs x 3 length classes; all 41 decimal overloads (incl. sign-flipped and abs references) + unary + Sum per tuple",
        move |i| grid_case(i % grid_total(), seed.wrapping_add(i / grid_total())),
        check_pair,
    );
    let max_gap = t.pick(3000u64, 12_000);
    ctx.enumerated(
        "gap-sweep",
        "pair",
        // (the checked build sweeps a quarter of the thorough tier's combinations: 36 shape pairs with one sign pair each)
        (max_gap + 1) * if ctx.flavour == "chk" { t.pick(4, 36) } else { t.pick(4, 36 * 4) },
        false,
        &format!("EVERY scale gap 0..={} (both directions) with operands of 1..24 digits; quick: 4 drawn shape pairs per gap, one for each sign pair; thorough: all 144 shape/sign combinations", max_gap),
        move |i| sweep_case(i, max_gap, seed),
        check_pair,
    );
    let max_len = t.pick(400usize, 5000);
    ctx.generated("random-pairs", "pair", t.pick(40_000, 400_000), "log-uniform lengths, gaps to 10^4, zero-with-scale, 1.00, twins, cancellations", move || pair_strategy(max_len), check_pair);
    ctx.enumerated(
        "prim-grid",
        "prim",
        10 * 11 * 120 * reps,
        false,
        "10 primitive types x {0,+-1,+-2,MIN,MAX,MIN+1,MAX-1,10,100} x 120 decimals; all 32 primitive overloads per tuple",
        move |i| prim_grid(i % (10 * 11 * 120), seed.wrapping_add(i / (10 * 11 * 120))),
        check_prim,
    );
    ctx.generated("random-prims", "prim", t.pick(30_000, 300_000), "random decimal x random primitive of random type", move || prim_strategy(max_len.min(1000)), check_prim);
    ctx.generated("random-bigints", "bigint", t.pick(30_000, 300_000), "random decimal x BigInt of 1..200 digits; all 36 BigInt overloads", move || int_strategy(max_len.min(1000)), check_int);
}
