//! C19 — programs of exact operations give exact results whatever the intermediate forms.

use crate::conv::{bigint, dec_of};
use crate::engine::{Ctx, Verdict};
use crate::ensure;
use crate::gen::{self, pick_idx, D};
use crate::props::c01::{dd_table, di_table, prim_apply, prim_bounds};
use bdoracle::Dec;
use bigdecimal::{BigDecimal, Signed};
use num_bigint::BigInt;
use proptest::prelude::*;
use serde::{Deserialize, Serialize};
use std::cmp::Ordering;
use std::hash::{Hash, Hasher};

pub const RULE: &str = "case = a program: a pool of 6 operands (random, zero-with-scale, one-with-zeros, power of ten, value-equal twin of another entry) and 1..40 operations on an accumulator, each with a generated overload (all 41 decimal-decimal spellings; the accumulator on either side, combined with pool entries, with itself or with one of its last four intermediate values; cube, clone_into); after EVERY step the accumulator must equal the exact model value, compare Equal (==, cmp, hash stream) with a freshly built canonical twin, and order correctly against the previous step's value; non-trivial = at least 5 steps, at least 3 distinct operation kinds and at least one step involving a special representation; distinct = structural hash of the whole program";
pub const EXPLANATION: &str = "Model-based testing of operation histories: the interpreter runs each program on a real BigDecimal accumulator and on the (BigInt, i128 scale) model; the invariant is checked after each step, so every prefix is a tested history. Programs are proptest values (Vec<Op> + pool) and shrink as a whole. Both build flavours (==, cmp and Hash are exercised in flight).";

#[derive(Clone, Debug, Hash, Serialize, Deserialize)]
pub enum Op {
    /// op: class of the decimal-decimal table (0 add, 1 sub, 2 mul, 3 reversed sub, 4..6 the sign-flipped / absolute
    /// reference forms); overload index into that class; operand index into the pool.
    /// rhs: 0 = pool entry, 1 = the accumulator itself, 2 = an earlier intermediate value (the operand index
    /// then selects among the last four); swap: the accumulator is the RIGHT operand
    Bin {
        op: u8,
        overload: u16,
        operand: u16,
        #[serde(default)]
        rhs: u8,
        #[serde(default)]
        swap: bool,
    },
    /// compound/operator with a BigInt
    Int { op: u8, overload: u16, n: String },
    /// operator with a primitive integer of type `ty`
    Prim { op: u8, overload: u16, ty: u8, val: String },
    Neg { form: u8 },
    Abs { form: u8 },
    Double,
    Half,
    Square,
    Cube,
    /// accumulator's reference cloned INTO an existing decimal (pool entry), which becomes the accumulator
    CloneInto { dest: u16 },
    /// with_scale(scale + by)
    Extend { by: u16, form: u8 },
    Normalize,
    CloneRef,
    /// accumulator := sum of the accumulator and the selected pool entries (owned / borrowed iterator)
    Sum { mask: u8, borrowed: bool },
}

#[derive(Clone, Debug, Hash, Serialize, Deserialize)]
pub struct Program {
    pub pool: Vec<D>,
    pub start: u16,
    pub ops: Vec<Op>,
}

struct Rec(Vec<u8>);
impl Hasher for Rec {
    fn finish(&self) -> u64 {
        0
    }
    fn write(&mut self, b: &[u8]) {
        self.0.extend_from_slice(b);
        self.0.push(0xfe);
    }
}
fn stream(x: &BigDecimal) -> Vec<u8> {
    let mut r = Rec(Vec::new());
    x.hash(&mut r);
    r.0
}

fn is_special(d: &D) -> bool {
    // zero carrying a scale, trailing zeros, negative scale
    (d.is_zero() && d.scale != 0) || (!d.is_zero() && d.int.ends_with('0')) || d.scale < 0
}

const MAX_DIGITS: usize = 3000;
/// operations that would push |scale| beyond this are skipped (a doubling scale under repeated squaring
/// would otherwise make a later addition materialise 10^(huge))
const MAX_SCALE: i128 = 3000;

pub fn check_program(c: &Program) -> Verdict {
    if c.pool.is_empty() {
        return Verdict::inconclusive("empty pool");
    }
    let pool: Vec<BigDecimal> = c.pool.iter().map(|d| d.bd()).collect();
    let mpool: Vec<Dec> = c.pool.iter().map(|d| d.dec()).collect();
    let s0 = pick_idx(c.start, pool.len());
    let mut acc = pool[s0].clone();
    let mut model = mpool[s0].clone();
    let mut v = Verdict::pass(false);
    let mut kinds = std::collections::BTreeSet::new();
    let mut special = is_special(&c.pool[s0]);
    let dd = dd_table();
    let di = di_table();
    let mut skipped = 0;
    // the last four intermediate values (as the library represents them) with their exact values
    let mut hist: Vec<(BigDecimal, Dec)> = Vec::new();
    for (step, op) in c.ops.iter().enumerate() {
        let prev_model = model.clone();
        let prev_acc = acc.clone();
        hist.push((prev_acc.clone(), prev_model.clone()));
        if hist.len() > 4 {
            hist.remove(0);
        }
        // size guards look at the accumulator as the library holds it (the model may be in a shorter,
        // value-equal representation)
        let acc_repr = dec_of(&acc);
        let acc_digits = (bdoracle::dec::ndigits(&acc_repr.int) as usize).max(bdoracle::dec::ndigits(&model.int) as usize);
        let acc_scale = if acc_repr.scale.abs() > model.scale.abs() { acc_repr.scale } else { model.scale };
        let name: String;
        match op {
            Op::Bin { op, overload, operand, rhs, swap } => {
                let op = op % 7;
                // the other operand: a pool entry, the accumulator itself, or an earlier intermediate
                let (other, mother, other_special): (BigDecimal, Dec, bool) = match rhs % 3 {
                    1 => (acc.clone(), model.clone(), true),
                    2 if !hist.is_empty() => {
                        let (h, mh) = &hist[pick_idx(*operand, hist.len())];
                        (h.clone(), mh.clone(), true)
                    }
                    _ => {
                        let j = pick_idx(*operand, pool.len());
                        (pool[j].clone(), mpool[j].clone(), is_special(&c.pool[j]))
                    }
                };
                let other_repr = dec_of(&other);
                let other_digits = bdoracle::dec::ndigits(&other_repr.int) as usize;
                if op == 2 && (acc_digits + other_digits > MAX_DIGITS || (acc_scale + other_repr.scale).abs() > MAX_SCALE) {
                    skipped += 1;
                    continue;
                }
                let cands: Vec<_> = dd.iter().filter(|e| e.1 == op).collect();
                let e = cands[pick_idx(*overload, cands.len())];
                name = format!("{}{}{}", e.0, if *swap { " [acc on the right]" } else { "" }, ["", " [with itself]", " [with an earlier intermediate]"][(rhs % 3) as usize]);
                let (l, r, ml, mr) = if *swap { (&other, &acc, &mother, &model) } else { (&acc, &other, &model, &mother) };
                let res = (e.2)(l, r);
                let mres = match op {
                    0 | 4 => ml.add(mr),
                    1 => ml.sub(mr),
                    2 => ml.mul(mr),
                    3 => mr.sub(ml),
                    5 => ml.neg().sub(mr),
                    _ => ml.abs().add(&mr.abs()),
                };
                acc = res;
                model = mres;
                special |= other_special;
                if *swap {
                    kinds.insert("acc-on-the-right");
                }
                if rhs % 3 != 0 {
                    kinds.insert("acc-with-itself-or-intermediate");
                }
                kinds.insert(["add", "sub", "mul", "sub", "add", "neg-sub", "abs-add"][op as usize]);
            }
            Op::Int { op, overload, n } => {
                let op = op % 4;
                let n = bigint(n);
                if op == 2 && acc_digits + n.to_string().len() > MAX_DIGITS {
                    skipped += 1;
                    continue;
                }
                let cands: Vec<_> = di.iter().filter(|e| e.1 == op).collect();
                let e = cands[pick_idx(*overload, cands.len())];
                name = e.0.to_string();
                acc = (e.2)(&acc, &n);
                let mn = Dec::new(n, 0);
                model = match op {
                    0 => model.add(&mn),
                    1 => model.sub(&mn),
                    2 => model.mul(&mn),
                    _ => mn.sub(&model),
                };
                kinds.insert("bigint");
            }
            Op::Prim { op, overload, ty, val } => {
                let op = op % 4;
                let ty = ty % 10;
                let n = bigint(val);
                let (lo, hi) = prim_bounds(ty);
                if n < lo || n > hi {
                    return Verdict::inconclusive("malformed primitive in program");
                }
                if op == 2 && acc_digits + 40 > MAX_DIGITS {
                    skipped += 1;
                    continue;
                }
                let all = prim_apply(&acc, ty, &n);
                let cands: Vec<_> = all.into_iter().filter(|e| e.1 == op).collect();
                let k = pick_idx(*overload, cands.len());
                let e = cands.into_iter().nth(k).unwrap();
                name = e.0;
                acc = e.2;
                let mn = Dec::new(n, 0);
                model = match op {
                    0 => model.add(&mn),
                    1 => model.sub(&mn),
                    2 => model.mul(&mn),
                    _ => mn.sub(&model),
                };
                kinds.insert("primitive");
            }
            Op::Neg { form } => {
                acc = match form % 3 {
                    0 => -acc,
                    1 => -&acc,
                    _ => (-acc.to_ref()).to_owned(),
                };
                name = "neg".into();
                model = model.neg();
                kinds.insert("neg");
            }
            Op::Abs { form } => {
                acc = match form % 3 {
                    0 => BigDecimal::abs(&acc),
                    1 => <BigDecimal as Signed>::abs(&acc),
                    _ => acc.to_ref().abs().to_owned(),
                };
                name = "abs".into();
                model = model.abs();
                kinds.insert("abs");
            }
            Op::Double => {
                acc = acc.double();
                name = "double".into();
                model = model.mul(&Dec::from_str_int("2", 0));
                kinds.insert("double");
            }
            Op::Half => {
                acc = acc.half();
                name = "half".into();
                model = model.half();
                kinds.insert("half");
            }
            Op::Square => {
                if acc_digits * 2 > MAX_DIGITS || (acc_scale * 2).abs() > MAX_SCALE {
                    skipped += 1;
                    continue;
                }
                acc = acc.square();
                name = "square".into();
                model = model.mul(&model);
                kinds.insert("square");
            }
            Op::Cube => {
                if acc_digits * 3 > MAX_DIGITS || (acc_scale * 3).abs() > MAX_SCALE {
                    skipped += 1;
                    continue;
                }
                acc = acc.cube();
                name = "cube".into();
                model = model.mul(&model).mul(&model);
                kinds.insert("cube");
            }
            Op::CloneInto { dest } => {
                let mut d = pool[pick_idx(*dest, pool.len())].clone();
                acc.to_ref().clone_into(&mut d);
                acc = d;
                name = "clone_into".into();
                kinds.insert("clone");
            }
            Op::Extend { by, form } => {
                let by = (*by % 700) as i64;
                let (_, sc) = acc.as_bigint_and_exponent();
                let target = match sc.checked_add(by) {
                    Some(t) if (t as i128).abs() <= MAX_SCALE => t,
                    _ => {
                        skipped += 1;
                        continue;
                    }
                };
                acc = match form % 3 {
                    0 => acc.with_scale(target),
                    1 => acc.to_ref().to_owned_with_scale(target),
                    _ => acc.with_scale_round(target, bigdecimal::RoundingMode::Down),
                };
                name = "extend".into();
                // value unchanged
                kinds.insert("extend");
                special = true;
            }
            Op::Normalize => {
                acc = acc.normalized();
                name = "normalized".into();
                kinds.insert("normalize");
            }
            Op::CloneRef => {
                acc = acc.to_ref().to_owned();
                name = "clone-through-ref".into();
                kinds.insert("clone");
            }
            Op::Sum { mask, borrowed } => {
                let sel: Vec<usize> = (0..pool.len()).filter(|i| mask & (1 << (i % 8)) != 0).collect();
                let mut items: Vec<BigDecimal> = vec![acc.clone()];
                items.extend(sel.iter().map(|&i| pool[i].clone()));
                acc = if *borrowed { items.iter().sum() } else { items.into_iter().sum() };
                for &i in &sel {
                    model = model.add(&mpool[i]);
                    special |= is_special(&c.pool[i]);
                }
                name = "sum".into();
                kinds.insert("sum");
            }
        }
        // ---- invariant after the step
        let trace = std::env::var("VERIF_TRACE").is_ok();
        let t_step = std::time::Instant::now();
        let got = dec_of(&acc);
        if trace {
            eprintln!("step {} {} digits={} scale={}", step, name, bdoracle::dec::ndigits(&got.int), got.scale);
        }
        ensure!(v, got.eq_val(&model), format!("C19/value-after:{}", name), "step {} ({}): accumulator {} but the exact value is {}", step, name, got.show(), model.show());
        if v.fail.is_some() {
            return v;
        }
        // canonical twin built from the model
        let canon = model.canonical();
        if let Ok(sc) = i64::try_from(canon.scale) {
            let twin = BigDecimal::new(canon.int.clone(), sc);
            ensure!(v, acc == twin && twin == acc, "C19/eq-twin", "step {} ({}): accumulator {} != canonical twin {}", step, name, got.show(), canon.show());
            ensure!(v, acc.cmp(&twin) == Ordering::Equal && twin.cmp(&acc) == Ordering::Equal, "C19/cmp-twin", "step {} ({}): cmp with canonical twin is not Equal", step, name);
            if got.scale.abs() <= 100_000 {
                ensure!(v, stream(&acc) == stream(&twin), "C19/hash-twin", "step {} ({}): hash stream of {} differs from its canonical twin {}", step, name, got.show(), canon.show());
            }
        }
        // order against the previous value
        let want = model.cmp_val(&prev_model);
        ensure!(v, acc.cmp(&prev_acc) == want, "C19/cmp-prev", "step {} ({}): cmp(new, previous) = {:?} but exact order is {:?}", step, name, acc.cmp(&prev_acc), want);
        ensure!(v, (acc == prev_acc) == (want == Ordering::Equal), "C19/eq-prev", "step {} ({}): == with previous value disagrees with the exact order {:?}", step, name, want);
        if v.fail.is_some() {
            return v;
        }
        if trace {
            eprintln!("   checks took {:?}", t_step.elapsed());
        }
    }
    let steps = c.ops.len() - skipped;
    v.nontrivial = steps >= 5 && kinds.len() >= 3 && special;
    v.labels.push(match steps {
        0..=4 => "steps<5",
        5..=15 => "steps=5..15",
        _ => "steps>15",
    });
    if skipped > 0 {
        v.labels.push("has-steps-skipped-by-size-guard");
    }
    for k in ["acc-on-the-right", "acc-with-itself-or-intermediate", "cube", "neg-sub", "abs-add"] {
        if kinds.contains(k) {
            v.labels.push(k);
        }
    }
    v
}

// ---------------------------------------------------------------- generator

fn op_strategy() -> BoxedStrategy<Op> {
    let prim = (0..4u8, any::<u16>(), 0..10u8, 0..12u8, any::<u128>()).prop_map(|(op, overload, ty, sel, raw)| {
        let (lo, hi) = prim_bounds(ty);
        let span: BigInt = &hi - &lo + 1;
        let cand = [BigInt::from(0), BigInt::from(1), BigInt::from(-1), BigInt::from(2), BigInt::from(10), lo.clone(), hi.clone()];
        let val = if (sel as usize) < cand.len() { cand[sel as usize].clone() } else if sel < 10 { BigInt::from(raw % 1000) } else { &lo + (BigInt::from(raw) % &span) };
        Op::Prim { op, overload, ty, val: val.max(lo).min(hi).to_string() }
    });
    prop_oneof![
        8 => (prop_oneof![6 => 0..3u8, 2 => 3..7u8], any::<u16>(), any::<u16>(), prop_oneof![5 => Just(0u8), 1 => Just(1u8), 2 => Just(2u8)], prop_oneof![3 => Just(false), 1 => Just(true)])
            .prop_map(|(op, overload, operand, rhs, swap)| Op::Bin { op, overload, operand, rhs, swap }),
        2 => (0..4u8, any::<u16>(), gen::sdigits(40)).prop_map(|(op, overload, n)| Op::Int { op, overload, n }),
        2 => prim,
        1 => (0..3u8).prop_map(|form| Op::Neg { form }),
        1 => (0..3u8).prop_map(|form| Op::Abs { form }),
        1 => Just(Op::Double),
        1 => Just(Op::Half),
        1 => Just(Op::Square),
        1 => prop_oneof![Just(Op::Cube), any::<u16>().prop_map(|dest| Op::CloneInto { dest })],
        1 => (any::<u16>(), 0..3u8).prop_map(|(by, form)| Op::Extend { by, form }),
        1 => Just(Op::Normalize),
        1 => Just(Op::CloneRef),
        1 => (any::<u8>(), any::<bool>()).prop_map(|(mask, borrowed)| Op::Sum { mask, borrowed }),
    ]
    .boxed()
}

pub fn program_strategy(max_len: usize, max_ops: usize) -> BoxedStrategy<Program> {
    (gen::decimal(max_len, 300), gen::decimal(max_len, 300), -60i64..=60, 0usize..=30, 0usize..=40, 0usize..=25, any::<u16>(), proptest::collection::vec(op_strategy(), 1..=max_ops))
        .prop_map(|(a, b, zscale, ones, p10, tz, start, ops)| {
            let twin = if a.is_zero() { D::new("0", a.scale + tz as i64) } else { D::new(format!("{}{}", a.int, "0".repeat(tz)), a.scale + tz as i64) };
            let pool = vec![
                a,
                b,
                D::new("0", zscale),                                      // zero carrying a scale
                D::new(format!("1{}", "0".repeat(ones)), ones as i64),    // one written as 1.00
                D::new("1", -(p10 as i64)),                               // power of ten with negative scale
                twin,                                                      // value-equal twin of pool[0]
            ];
            Program { pool, start, ops }
        })
        .boxed()
}

pub fn run(ctx: &Ctx) {
    let t = ctx.tier;
    let n = t.pick(40_000u64, 1_000_000);
    ctx.generated("programs-short-operands", "program", n, "operands of 1..40 digits, programs of 1..40 steps", || program_strategy(40, 40), check_program);
    ctx.generated("programs-long-operands", "program", n / 4, "operands of 1..400 digits, programs of 1..25 steps", || program_strategy(400, 25), check_program);
}
