//! C18 — representation accessors and canonical form are faithful.

use crate::conv::{bigint, dec_of};
use crate::engine::{Ctx, Verdict};
use crate::ensure;
use crate::gen::{self, D};
use bigdecimal::{BigDecimal, One};
use num_bigint::{BigInt, Sign};
use num_traits::Zero;
use proptest::prelude::*;
use serde::{Deserialize, Serialize};

pub const RULE: &str = "case = (int, scale, extension) or a power-of-ten exponent k; every constructor/accessor/reference view must report exactly (int, scale); digits() must equal the length of the decimal string; scale/precision extension must append exactly `extension` zeros; normalized() must equal the oracle's canonical form; non-trivial = more than one digit or a trailing zero or a non-zero scale; distinct = enumerated tuples / structural hash";
pub const EXPLANATION: &str = "Exhaustive: k = 0..5000 for digits(10^k), digits(10^k-1), digits(10^k+1) and one().with_scale(k) / with_prec(k+1) / to_owned_with_scale(k) (covers the <20, <590 and recursive power-of-ten algorithms and the f64 digit estimate on both sides of every power of ten); all unscaled values of up to 5 digits x scales -6..6. Generated: up to 5000 digits with 0..5000 trailing zeros, extensions 0..5000. Expected integers are built as decimal strings by the harness, never with the library's helpers.";

#[derive(Clone, Debug, Hash, Serialize, Deserialize)]
pub struct PowCase {
    pub k: u32,
}

pub fn check_pow(c: &PowCase) -> Verdict {
    let k = c.k as usize;
    let mut v = Verdict::pass(k > 0);
    let p10 = format!("1{}", "0".repeat(k));
    let below = if k == 0 { "0".to_string() } else { "9".repeat(k) };
    let above = if k == 0 { "2".to_string() } else { format!("1{}1", "0".repeat(k - 1)) };
    for (what, s) in [("10^k", &p10), ("10^k-1", &below), ("10^k+1", &above)] {
        let want = s.len() as u64;
        for neg in [false, true] {
            let int = bigint(&if neg && s != "0" { format!("-{}", s) } else { s.clone() });
            let x = BigDecimal::new(int, 3);
            ensure!(v, x.digits() == want, "C18/digits", "digits({} with k={}, negative={}) = {} expected {}", what, k, neg, x.digits(), want);
            ensure!(v, x.to_ref().count_digits() == want, "C18/count_digits", "count_digits({} with k={}) = {} expected {}", what, k, x.to_ref().count_digits(), want);
        }
    }
    let want_int = bigint(&p10);
    let one = BigDecimal::one();
    let a = one.with_scale(k as i64);
    ensure!(v, a.as_bigint_and_exponent() == (want_int.clone(), k as i64), "C18/extend:with_scale", "one().with_scale({}) is not 1 followed by {} zeros", k, k);
    let b = one.with_prec(k as u64 + 1);
    ensure!(v, b.as_bigint_and_exponent() == (want_int.clone(), k as i64), "C18/extend:with_prec", "one().with_prec({}) is not 1 followed by {} zeros", k + 1, k);
    let c2 = one.to_ref().to_owned_with_scale(k as i64);
    ensure!(v, c2.as_bigint_and_exponent() == (want_int.clone(), k as i64), "C18/extend:to_owned_with_scale", "one().to_ref().to_owned_with_scale({}) is not 1 followed by {} zeros", k, k);
    let d = one.with_scale_round(k as i64, bigdecimal::RoundingMode::HalfEven);
    ensure!(v, d.as_bigint_and_exponent() == (want_int.clone(), k as i64), "C18/extend:with_scale_round", "one().with_scale_round({}) is not 1 followed by {} zeros", k, k);
    v
}

#[derive(Clone, Debug, Hash, Serialize, Deserialize)]
pub struct Acc {
    pub d: D,
    pub ext: u32,
}

pub fn check_acc(c: &Acc) -> Verdict {
    let int = c.d.bigint();
    let scale = c.d.scale;
    let digits = c.d.int.trim_start_matches('-');
    let nd = if int.is_zero() { 1 } else { digits.trim_start_matches('0').len() as u64 };
    let has_trailing_zero = !int.is_zero() && digits.ends_with('0');
    let mut v = Verdict::pass(nd > 1 || scale != 0 || has_trailing_zero);
    if has_trailing_zero {
        v.labels.push("trailing-zeros");
    }
    if int.is_zero() {
        v.labels.push("zero");
    }
    // constructors
    let x = BigDecimal::new(int.clone(), scale);
    let ctors: Vec<(&str, BigDecimal)> = vec![
        ("new", x.clone()),
        ("from_bigint", BigDecimal::from_bigint(int.clone(), scale)),
        ("From<(BigInt,i64)>", BigDecimal::from((int.clone(), scale))),
    ];
    for (what, y) in &ctors {
        ensure!(v, y.as_bigint_and_exponent() == (int.clone(), scale), format!("C18/ctor:{}", what), "{} stores {:?}", what, D::of(y));
    }
    if int.sign() != Sign::Minus {
        let y = BigDecimal::from_biguint(int.magnitude().clone(), scale);
        ensure!(v, y.as_bigint_and_exponent() == (int.clone(), scale), "C18/ctor:from_biguint", "from_biguint stores {:?}", D::of(&y));
    }
    if scale == 0 {
        let y = BigDecimal::from(int.clone());
        ensure!(v, y.as_bigint_and_exponent() == (int.clone(), 0), "C18/ctor:From<BigInt>", "From<BigInt> stores {:?}", D::of(&y));
    }
    // accessors
    {
        let (cow, s) = x.as_bigint_and_scale();
        ensure!(v, *cow == int && s == scale, "C18/acc:as_bigint_and_scale", "as_bigint_and_scale = ({}, {})", cow, s);
    }
    ensure!(v, x.clone().into_bigint_and_exponent() == (int.clone(), scale), "C18/acc:into_bigint_and_exponent", "into_bigint_and_exponent differs");
    ensure!(v, x.clone().into_bigint_and_scale() == (int.clone(), scale), "C18/acc:into_bigint_and_scale", "into_bigint_and_scale differs");
    ensure!(v, x.fractional_digit_count() == scale, "C18/acc:fractional_digit_count", "fractional_digit_count = {}", x.fractional_digit_count());
    ensure!(v, x.sign() == int.sign(), "C18/acc:sign", "sign = {:?}", x.sign());
    ensure!(v, x.digits() == nd, "C18/digits", "digits() = {} expected {}", x.digits(), nd);
    // reference view
    let r = x.to_ref();
    ensure!(v, r.sign() == int.sign(), "C18/ref:sign", "ref sign = {:?}", r.sign());
    ensure!(v, r.fractional_digit_count() == scale, "C18/ref:fractional_digit_count", "ref scale = {}", r.fractional_digit_count());
    ensure!(v, r.count_digits() == nd, "C18/count_digits", "count_digits() = {} expected {}", r.count_digits(), nd);
    ensure!(v, r.is_zero() == int.is_zero(), "C18/ref:is_zero", "ref is_zero = {}", r.is_zero());
    ensure!(v, r.to_owned().as_bigint_and_exponent() == (int.clone(), scale), "C18/ref:to_owned", "to_owned differs");
    let mut dest = BigDecimal::new(BigInt::from(123), 45);
    r.clone_into(&mut dest);
    ensure!(v, dest.as_bigint_and_exponent() == (int.clone(), scale), "C18/ref:clone_into", "clone_into differs");
    let nr = -r;
    ensure!(v, nr.to_owned().as_bigint_and_exponent() == (-int.clone(), scale), "C18/ref:neg", "negated ref differs");
    ensure!(v, r.abs().to_owned().as_bigint_and_exponent() == (BigInt::from(int.magnitude().clone()), scale), "C18/ref:abs", "abs ref differs");
    // normalized
    let n = x.normalized();
    let want = c.d.dec().canonical();
    let got = dec_of(&n);
    ensure!(v, got == want, "C18/normalized", "normalized() = {} expected {}", got.show(), want.show());
    // extension by `ext` digits
    let ext = c.ext as i64;
    if scale.checked_add(ext).is_some() {
        let want_int = if int.is_zero() { BigInt::zero() } else { bigint(&format!("{}{}", c.d.int, "0".repeat(ext as usize))) };
        let a = x.with_scale(scale + ext);
        ensure!(v, a.as_bigint_and_exponent() == (want_int.clone(), scale + ext), "C18/extend:with_scale", "with_scale(+{}) does not append exactly {} zeros", ext, ext);
        let b = r.to_owned_with_scale(scale + ext);
        ensure!(v, b.as_bigint_and_exponent() == (want_int.clone(), scale + ext), "C18/extend:to_owned_with_scale", "to_owned_with_scale(+{}) does not append exactly {} zeros", ext, ext);
        if !int.is_zero() {
            let p = x.with_prec(nd + ext as u64);
            ensure!(v, p.as_bigint_and_exponent() == (want_int.clone(), scale + ext), "C18/extend:with_prec", "with_prec(digits+{}) does not append exactly {} zeros", ext, ext);
            // the rounding forms extend exactly too, whatever the mode (nothing is discarded)
            let mode = [bigdecimal::RoundingMode::Up, bigdecimal::RoundingMode::Down, bigdecimal::RoundingMode::Ceiling, bigdecimal::RoundingMode::Floor, bigdecimal::RoundingMode::HalfUp, bigdecimal::RoundingMode::HalfDown, bigdecimal::RoundingMode::HalfEven][(c.ext as usize + c.d.int.len()) % 7];
            let q = x.with_precision_round(std::num::NonZeroU64::new(nd + ext as u64).unwrap(), mode);
            ensure!(v, q.as_bigint_and_exponent() == (want_int.clone(), scale + ext), "C18/extend:with_precision_round", "with_precision_round(digits+{}, {:?}) does not append exactly {} zeros", ext, mode, ext);
            let w = x.with_scale_round(scale + ext, mode);
            ensure!(v, w.as_bigint_and_exponent() == (want_int.clone(), scale + ext), "C18/extend:with_scale_round", "with_scale_round(scale+{}, {:?}) does not append exactly {} zeros", ext, mode, ext);
        } else {
            // a zero extended to a precision stays a zero
            let p = x.with_prec(1 + ext as u64);
            ensure!(v, p.as_bigint_and_exponent().0.is_zero(), "C18/extend:with_prec-zero", "with_prec({}) of a zero is {:?}", 1 + ext, D::of(&p));
        }
    }
    // a reference made from a bare integer is that integer with scale 0
    {
        let ri = bigdecimal::BigDecimalRef::from(&int);
        ensure!(v, ri.to_owned().as_bigint_and_exponent() == (int.clone(), 0) && ri.sign() == int.sign() && ri.count_digits() == nd, "C18/ref:from-bigint", "BigDecimalRef::from(&BigInt) reports {:?}", D::of(&ri.to_owned()));
    }
    v
}

fn small_total() -> u64 {
    199_999 * 13 * 2
}

fn small_case(i: u64) -> Option<Acc> {
    let mut k = i;
    let ext = [0u32, 3][(k % 2) as usize];
    k /= 2;
    let scale = (k % 13) as i64 - 6;
    k /= 13;
    let n = k as i64 - 99_999;
    Some(Acc { d: D::new(n.to_string(), scale), ext })
}

fn acc_strategy(max_len: usize) -> BoxedStrategy<Acc> {
    (gen::sdigits(max_len), gen::len_strategy(max_len), 0..4u8, gen::scale_strategy(10_000), gen::len_strategy(max_len), 0..4u8)
        .prop_map(|(int, tz, with_tz, scale, ext, with_ext)| {
            let int = if with_tz < 2 && int != "0" { format!("{}{}", int, "0".repeat(tz)) } else { int };
            // extensions across the power-of-ten algorithm switches (19/20, 589/590, 1179/1180) with multi-limb integers
            let ext = match with_ext {
                0 => 0,
                3 => [18usize, 19, 20, 21, 588, 589, 590, 591, 1179, 1180, 1181][ext % 11],
                _ => ext,
            };
            Acc { d: D::new(int, scale), ext: ext as u32 }
        })
        .boxed()
}

/// Integers whose LOW machine word(s) alone look like a multiple of 10^z (n = hi * 2^(32w) + m * 10^z with m * 10^z < 2^(32w)) although the whole
/// integer is not one, and the converse (a multiple of 10^z whose low words show no zero): shortcuts that look at one limb go wrong here only.
fn limb_deceptive_strategy() -> BoxedStrategy<Acc> {
    (prop_oneof![Just(1u32), Just(2), Just(4)], 1u32..=38, any::<u64>(), any::<u64>(), 0..4u8, any::<bool>(), gen::scale_strategy(60), 0..3u8)
        .prop_map(|(w, z, r1, r2, how, neg, scale, with_ext)| {
            let word = BigInt::from(1) << (32 * w);
            let tz = BigInt::from(10u8).pow(z);
            // the largest z that still fits the word
            let (z, tz) = if tz >= word { (9 * w - 1, BigInt::from(10u8).pow(9 * w - 1)) } else { (z, tz) };
            let _ = z;
            let room = &word / &tz; // >= 1
            let m = BigInt::from(1) + (BigInt::from(r1) * BigInt::from(r2 | 1)) % &room;
            let m = if &m * &tz >= word { BigInt::from(1) } else { m };
            let hi: BigInt = match how {
                0 => BigInt::from(1),
                1 => BigInt::from(1 + r2 % 9),
                2 => BigInt::from(r2 | 1),
                _ => (BigInt::from(r2 | 1) << 64) + BigInt::from(r1),
            };
            let n = hi * &word + m * &tz;
            let n = if neg { -n } else { n };
            Acc { d: D::new(n.to_string(), scale), ext: [0u32, 3, 20][with_ext as usize] }
        })
        .boxed()
}

pub fn run(ctx: &Ctx) {
    let t = ctx.tier;
    ctx.enumerated("powers-of-ten", "pow", 5001, true, "EXHAUSTIVE: k = 0..5000: digits() of 10^k, 10^k-1, 10^k+1 (both signs); one() extended to scale k by with_scale / with_prec / to_owned_with_scale / with_scale_round", |i| Some(PowCase { k: i as u32 }), check_pow);
    ctx.enumerated("small-exhaustive", "acc", small_total(), true, "EXHAUSTIVE: every unscaled value of up to 5 digits (both signs, zero) x scales -6..6 x extension {0,3}", small_case, check_acc);
    let max_len = t.pick(2000usize, 5000);
    ctx.generated("random", "acc", t.pick(300_000, 2_000_000), "up to max digits, 0..max trailing zeros, extensions 0..max, scales to +-10^4", move || acc_strategy(max_len), check_acc);
    ctx.generated("limb-deceptive-zeros", "acc", t.pick(100_000, 1_000_000), "n = hi*2^(32w) + m*10^z (w = 1, 2, 4 words; every z that fits; hi = 1, a digit, a word, three words): the low words end in z zeros, the integer does not; both signs, scales +-60", limb_deceptive_strategy, check_acc);
}
