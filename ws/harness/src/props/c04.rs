//! C04 — every textual rendering parses back to the same decimal.

use crate::conv::{build_cfg, dec_of};
use crate::engine::{Ctx, Verdict};
use crate::ensure;
use crate::gen::{self, DigSpec, SplitMix, D};
use bdoracle::numeral::parse_reference;
use bdoracle::Dec;
use bigdecimal::BigDecimal;
use proptest::prelude::*;
use serde::{Deserialize, Serialize};
use std::str::FromStr;

pub const RULE: &str = "case = one decimal (int, scale); eight renderings ({} {:e} {:E} on value and reference, scientific, engineering, plain, and the write_* forms) are each parsed back with the library parser AND the reference evaluator; non-trivial = more than one digit or a non-zero scale (a zero carrying a scale counts); distinct = the (int, scale) pair";
pub const EXPLANATION: &str = "Round-trip oracle: parsed value must equal the original exactly (oracle comparison), and (digits, scale) must be identical except for engineering notation, Display at scales -15..-1 (zero padding) and plain notation at negative scale. Display must use exponent form exactly when leading zeros exceed the lower threshold or trailing zeros exceed the upper threshold (thresholds taken from the build environment), and stay within digits+45 characters. Grid stage: EVERY digit length 1..40 x EVERY scale -40..60 x 4 digit patterns x both signs.";

#[derive(Clone, Debug, Hash, Serialize, Deserialize)]
pub struct Val {
    pub d: D,
}

/// how much of the representation a rendering must preserve
#[derive(Clone, Copy, PartialEq)]
enum Repr {
    /// identical digits and scale
    Same,
    /// an integer written out with its zeros (Display at scales -upper..-1, plain notation at negative scales): the zeros
    /// up to the units place are appended and nothing else - the text re-parses with scale 0
    IntegerWrittenOut,
    /// engineering notation: the value only
    ValueOnly,
}

fn check_text(v: &mut Verdict, what: &str, text: &str, orig: &Dec, repr: Repr) {
    let sig = |k: &str| format!("C04/{}:{}", k, what);
    let lib = BigDecimal::from_str(text);
    let lib = match lib {
        Ok(x) => x,
        Err(e) => {
            ensure!(v, false, sig("unparseable"), "{} produced {:?} which the parser rejects: {}", what, crate::engine::truncate(text, 120), e);
            return;
        }
    };
    let got = dec_of(&lib);
    ensure!(v, got.eq_val(orig), sig("value-changed"), "{} produced {:?} which parses to {} instead of {}", what, crate::engine::truncate(text, 120), got.show(), orig.show());
    match parse_reference(text.as_bytes()) {
        None => ensure!(v, false, sig("not-a-numeral"), "{} produced {:?} which is not a numeral by the reference grammar", what, crate::engine::truncate(text, 120)),
        Some((i, s)) => ensure!(v, i == got.int && s as i128 == got.scale, sig("reference-disagrees"), "{}: reference evaluator reads {:?} as ({}, {})", what, crate::engine::truncate(text, 120), i, s),
    }
    match repr {
        Repr::Same => ensure!(v, got == *orig, sig("repr-changed"), "{} produced {:?} which parses to digits/scale {} instead of {}", what, crate::engine::truncate(text, 120), got.show(), orig.show()),
        Repr::IntegerWrittenOut => ensure!(v, got.scale == 0, sig("fraction-invented"), "{} wrote the integer {} as {:?}, which parses with scale {}", what, orig.show(), crate::engine::truncate(text, 120), got.scale),
        Repr::ValueOnly => {}
    }
    // the integer part carries no superfluous leading zero (a zero value may be written with its zeros)
    let body = text.strip_prefix('-').unwrap_or(text);
    let ip = body.split(|ch| ch == '.' || ch == 'e' || ch == 'E').next().unwrap_or("");
    ensure!(v, ip == "0" || !ip.starts_with('0') || orig.is_zero(), sig("leading-zero"), "{} produced {:?} with a superfluous leading zero", what, crate::engine::truncate(text, 120));
}

pub fn check_val(c: &Val) -> Verdict {
    let cfg = build_cfg();
    let x = c.d.bd();
    let m = c.d.dec();
    let nd = c.d.ndigits() as i128;
    let scale = c.d.scale as i128;
    let mut v = Verdict::pass(nd > 1 || scale != 0);
    // --- Display
    let disp = format!("{}", x);
    let disp_ref = format!("{}", x.to_ref());
    ensure!(v, disp == disp_ref, "C04/ref-differs:display", "Display of value {:?} and of reference {:?} differ", disp, disp_ref);
    // a reference whose sign was flipped without touching the digits prints like the negated value
    let neg_val = -x.clone();
    ensure!(v, format!("{}", -x.to_ref()) == format!("{}", neg_val), "C04/negref-differs:display", "Display of -ref {:?} and of the negated value {:?} differ", format!("{}", -x.to_ref()), format!("{}", neg_val));
    ensure!(v, format!("{:e}", -x.to_ref()) == format!("{:e}", neg_val), "C04/negref-differs:lowerexp", "{{:e}} of -ref and of the negated value differ");
    ensure!(v, format!("{:E}", -x.to_ref()) == format!("{:E}", neg_val), "C04/negref-differs:upperexp", "{{:E}} of -ref and of the negated value differ");
    ensure!(v, format!("{}", x.to_ref().abs()) == format!("{}", x.abs()), "C04/absref-differs:display", "Display of |ref| {:?} and of the absolute value {:?} differ", format!("{}", x.to_ref().abs()), format!("{}", x.abs()));
    let padded = scale < 0 && -scale <= cfg.upper as i128;
    check_text(&mut v, "display", &disp, &m, if padded { Repr::IntegerWrittenOut } else { Repr::Same });
    // notation switch
    let leading_zeros = if scale > nd { scale - nd } else { 0 };
    let trailing_zeros = if scale < 0 { -scale } else { 0 };
    let want_exp = leading_zeros > cfg.lower as i128 || trailing_zeros > cfg.upper as i128;
    let has_exp = disp.contains('e') || disp.contains('E');
    v.labels.push(if has_exp { "display-exponential" } else { "display-plain" });
    ensure!(v, has_exp == want_exp, "C04/notation-switch", "Display {:?}: exponent form {} but leading zeros {} / trailing zeros {} against thresholds {}/{}", crate::engine::truncate(&disp, 100), has_exp, leading_zeros, trailing_zeros, cfg.lower, cfg.upper);
    ensure!(v, (disp.len() as i128) <= nd + 45, "C04/display-too-long", "Display has {} characters for {} digits", disp.len(), nd);
    // --- {:e} {:E}
    let le = format!("{:e}", x);
    let ue = format!("{:E}", x);
    ensure!(v, le == format!("{:e}", x.to_ref()), "C04/ref-differs:lowerexp", "{{:e}} of value and reference differ");
    ensure!(v, ue == format!("{:E}", x.to_ref()), "C04/ref-differs:upperexp", "{{:E}} of value and reference differ");
    check_text(&mut v, "lowerexp", &le, &m, Repr::Same);
    check_text(&mut v, "upperexp", &ue, &m, Repr::Same);
    ensure!(v, le.contains('e') && ue.contains('E') && le.to_uppercase() == ue, "C04/exp-symbol", "{{:e}} = {:?}, {{:E}} = {:?}", crate::engine::truncate(&le, 80), crate::engine::truncate(&ue, 80));
    // --- scientific / engineering
    let sci = x.to_scientific_notation();
    let mut w = String::new();
    x.write_scientific_notation(&mut w).unwrap();
    ensure!(v, sci == w, "C04/write-differs:scientific", "to_scientific_notation and write_scientific_notation differ");
    check_text(&mut v, "scientific", &sci, &m, Repr::Same);
    let eng = x.to_engineering_notation();
    let mut w = String::new();
    x.write_engineering_notation(&mut w).unwrap();
    ensure!(v, eng == w, "C04/write-differs:engineering", "to_engineering_notation and write_engineering_notation differ");
    check_text(&mut v, "engineering", &eng, &m, Repr::ValueOnly);
    // --- plain (only where the text stays small)
    if scale.abs() <= PLAIN_MAX_SCALE {
        let plain = x.to_plain_string();
        let mut w = String::new();
        x.write_plain_string(&mut w).unwrap();
        ensure!(v, plain == w, "C04/write-differs:plain", "to_plain_string and write_plain_string differ");
        ensure!(v, !plain.contains('e') && !plain.contains('E'), "C04/plain-has-exponent", "plain string {:?} has an exponent", crate::engine::truncate(&plain, 80));
        check_text(&mut v, "plain", &plain, &m, if scale >= 0 { Repr::Same } else { Repr::IntegerWrittenOut });
        v.labels.push("plain-checked");
    }
    v
}

/// plain notation is written out (and parsed back) for scales up to this size: beyond the 16-bit and 17-bit boundaries
const PLAIN_MAX_SCALE: i128 = 140_000;

// ---------------------------------------------------------------- generators

fn grid_total() -> u64 {
    40 * 101 * 4 * 2
}

fn grid(i: u64, seed: u64) -> Option<Val> {
    let mut k = i;
    let len = 1 + (k % 40) as usize;
    k /= 40;
    let scale = (k % 101) as i64 - 40;
    k /= 101;
    let pattern = k % 4;
    k /= 4;
    let neg = k % 2 == 1;
    let mut rng = SplitMix(seed ^ i.wrapping_mul(0x9e3779b97f4a7c15));
    let shape = [0u8, 1, 2, 10][pattern as usize];
    let s = gen::digits_of(&DigSpec { shape, len, head: vec![], seed: rng.next(), aux: rng.next() as u32 });
    Some(Val { d: D::new(if neg { format!("-{}", s) } else { s }, scale) })
}

fn scale_wide() -> BoxedStrategy<i64> {
    prop_oneof![
        4 => -60i64..=80,
        2 => -3000i64..=3000,
        1 => -20_000i64..=20_000,
        1 => -1_000_000_000_000_000i64..=1_000_000_000_000_000,
        1 => gen::pow2_scale(),
    ]
    .boxed()
}

fn val_strategy(max_len: usize) -> BoxedStrategy<Val> {
    (gen::sdigits(max_len), scale_wide()).prop_map(|(int, scale)| Val { d: D::new(int, scale) }).boxed()
}

/// values at and around the two Display thresholds, and zeros with any scale
fn threshold_strategy() -> BoxedStrategy<Val> {
    (gen::udigits(60), any::<bool>(), 0..4u8, -3i64..=3)
        .prop_map(|(digits, neg, which, d)| {
            let n = digits.len() as i64;
            let (int, scale) = match which {
                // 0.000ddd with leading zeros around 5
                0 => (digits.clone(), n + 5 + d),
                // integers with trailing zeros around 15
                1 => (digits.clone(), -15 + d),
                // zero with assorted scales
                2 => ("0".to_string(), (d * 7) + if neg { -20 } else { 9 }),
                // scale around the digit count (point at either end of the digits)
                _ => (digits.clone(), n + d),
            };
            Val { d: D::new(if neg && int != "0" { format!("-{}", int) } else { int }, scale) }
        })
        .boxed()
}

pub fn run(ctx: &Ctx) {
    let t = ctx.tier;
    let seed = ctx.seed;
    let reps = t.pick(6u64, 60);
    ctx.enumerated(
        "grid-length-scale",
        "val",
        grid_total() * reps,
        false,
        "EVERY digit length 1..40 x EVERY scale -40..60 x {random, all nines, power of ten, trailing-zero-rich} x both signs (digit content re-drawn per repetition)",
        move |i| grid(i % grid_total(), seed.wrapping_add(i / grid_total())),
        check_val,
    );
    ctx.enumerated(
        "zeros",
        "val",
        4001,
        true,
        "EXHAUSTIVE: zero with every scale -2000..2000",
        |i| Some(Val { d: D::new("0", i as i64 - 2000) }),
        check_val,
    );
    {
        // plain notation at scales next to the truncating-cast boundaries 2^8, 2^15, 2^16, 2^17 (both signs of the scale)
        let mut cases = Vec::new();
        for base in [255i64, 32_767, 65_535, 131_071] {
            for d in -2..=3i64 {
                for (k, digits) in ["7", "-123456789", "0", "1000", "99999999999999999999"].iter().enumerate() {
                    let s = base + d;
                    cases.push(Val { d: D::new(digits.to_string(), if (k as i64 + d).rem_euclid(3) == 0 { -s } else { s }) });
                }
            }
        }
        ctx.listed("boundary-scales", "val", "scales +-(2^8, 2^15, 2^16, 2^17) - 3..+3 x 5 digit strings: every rendering incl. plain notation (65 000 to 131 000 characters)", cases, check_val);
    }
    let max_len = t.pick(600usize, 3000);
    let n = t.pick(150_000u64, 5_000_000);
    ctx.generated("random-values", "val", n, "1..max digits, all shapes, scales in +-80 / +-3000 / +-20000 / +-10^15", move || val_strategy(max_len), check_val);
    ctx.generated("thresholds", "val", n, "0.000ddd at leading-zero counts 2..8, integers with 12..18 trailing zeros, zeros, point at either end of the digits", threshold_strategy, check_val);
}
