//! C14 — binary floats convert to decimals exactly and come back unchanged.

use crate::conv::dec_of;
use crate::engine::{Ctx, Tier, Verdict};
use crate::ensure;
use crate::gen::{self, D};
use bdoracle::floatbits::{dec_of_f32_bits, dec_of_f64_bits, decode_f32, decode_f64, FloatClass};
use bdoracle::Dec;
use bigdecimal::{BigDecimal, FromPrimitive, ToPrimitive};
use num_bigint::BigInt;
use proptest::prelude::*;
use serde::{Deserialize, Serialize};
use std::cmp::Ordering;
use std::convert::TryFrom;

pub const RULE: &str = "case = one f32 or f64 bit pattern (conversion must be the exact binary value, NaN/inf must be errors, to_f64/to_f32 must return the identical bits with -0.0 -> 0.0), or one decimal (to_f64: right sign; |f - v| <= 2^-48 |v| in the normal range; +-inf only beyond or within that tolerance of f64::MAX; within 2^-1074 below the normal range); non-trivial = float with a fractional binary part or subnormal, decimal with more than 17 digits or outside the normal range; distinct = the bit pattern / structural hash";
pub const EXPLANATION: &str = "Oracle decodes IEEE-754 fields with integer arithmetic and builds the exact decimal m*2^e (m*5^-e / 10^-e); comparisons are exact. The thorough tier enumerates ALL 2^32 f32 bit patterns; quick enumerates every f32 and f64 exponent field crossed with boundary and pseudo-random mantissas. to_f64 of arbitrary decimals is judged with exact rational comparisons against the stated tolerances.";

#[derive(Clone, Debug, Hash, Serialize, Deserialize)]
pub struct F32Bits {
    pub bits: u32,
}

#[derive(Clone, Debug, Hash, Serialize, Deserialize)]
pub struct F64Bits {
    pub bits: u64,
}

fn canon_f64_bits(b: u64) -> u64 {
    if b == 1u64 << 63 {
        0
    } else {
        b
    }
}

pub fn check_f32(c: &F32Bits) -> Verdict {
    let f = f32::from_bits(c.bits);
    let class = decode_f32(c.bits);
    let tf = BigDecimal::try_from(f);
    let fp = <BigDecimal as FromPrimitive>::from_f32(f);
    match class {
        FloatClass::Nan | FloatClass::Inf { .. } => {
            let mut v = Verdict::pass(true).label("nan-or-inf");
            ensure!(v, tf.is_err(), "C14/nonfinite-accepted", "try_from({:?}) returned Ok", f);
            ensure!(v, fp.is_none(), "C14/nonfinite-accepted", "from_f32({:?}) returned Some", f);
            v
        }
        FloatClass::Finite { mant, exp2, subnormal, .. } => {
            let want = dec_of_f32_bits(c.bits).unwrap();
            let frac = exp2 < 0 && (mant.trailing_zeros() as i32) < -exp2 && mant != 0;
            let mut v = Verdict::pass(frac || subnormal);
            v.labels.push(if subnormal { "subnormal" } else if mant == 0 { "zero" } else { "normal" });
            let x = match tf {
                Ok(x) => x,
                Err(e) => return v.with_fail("C14/finite-rejected", format!("try_from({:e}) failed: {}", f, e)),
            };
            let g = dec_of(&x);
            ensure!(v, g.eq_val(&want), "C14/inexact-conversion", "try_from(f32 bits {:#x}) = {} but the binary value is {}", c.bits, g.show(), want.show());
            ensure!(v, fp.as_ref().map(|y| dec_of(y).eq_val(&want)) == Some(true), "C14/inexact-conversion", "from_f32(bits {:#x}) differs from the binary value", c.bits);
            // back
            let want_back = canon_f64_bits((f as f64).to_bits());
            let b1 = x.to_f64().map(|y| y.to_bits());
            ensure!(v, b1 == Some(want_back), "C14/roundtrip-f64", "to_f64 of the converted f32 bits {:#x} = {:?} expected bits {:#x}", c.bits, b1, want_back);
            let b2 = x.to_ref().to_f64().map(|y| y.to_bits());
            ensure!(v, b2 == Some(want_back), "C14/roundtrip-f64-ref", "ref.to_f64 of the converted f32 bits {:#x} = {:?}", c.bits, b2);
            let want32 = if c.bits == 1u32 << 31 { 0 } else { c.bits };
            let b3 = x.to_f32().map(|y| y.to_bits());
            ensure!(v, b3 == Some(want32), "C14/roundtrip-f32", "to_f32 of the converted f32 bits {:#x} = {:?}", c.bits, b3);
            v
        }
    }
}

pub fn check_f64(c: &F64Bits) -> Verdict {
    let f = f64::from_bits(c.bits);
    let class = decode_f64(c.bits);
    let tf = BigDecimal::try_from(f);
    let fp = <BigDecimal as FromPrimitive>::from_f64(f);
    match class {
        FloatClass::Nan | FloatClass::Inf { .. } => {
            let mut v = Verdict::pass(true).label("nan-or-inf");
            ensure!(v, tf.is_err(), "C14/nonfinite-accepted", "try_from({:?}) returned Ok", f);
            ensure!(v, fp.is_none(), "C14/nonfinite-accepted", "from_f64({:?}) returned Some", f);
            v
        }
        FloatClass::Finite { mant, exp2, subnormal, .. } => {
            let want = dec_of_f64_bits(c.bits).unwrap();
            let frac = exp2 < 0 && (mant.trailing_zeros() as i32) < -exp2 && mant != 0;
            let mut v = Verdict::pass(frac || subnormal);
            v.labels.push(if subnormal { "subnormal" } else if mant == 0 { "zero" } else { "normal" });
            let x = match tf {
                Ok(x) => x,
                Err(e) => return v.with_fail("C14/finite-rejected", format!("try_from({:e}) failed: {}", f, e)),
            };
            let g = dec_of(&x);
            ensure!(v, g.eq_val(&want), "C14/inexact-conversion", "try_from(f64 bits {:#x}) = {} but the binary value is {}", c.bits, g.show(), want.show());
            ensure!(v, fp.as_ref().map(|y| dec_of(y).eq_val(&want)) == Some(true), "C14/inexact-conversion", "from_f64(bits {:#x}) differs from the binary value", c.bits);
            let want_back = canon_f64_bits(c.bits);
            let b1 = x.to_f64().map(|y| y.to_bits());
            ensure!(v, b1 == Some(want_back), "C14/roundtrip-f64", "to_f64 of the converted f64 bits {:#x} = {:?}", c.bits, b1.map(|b| format!("{:#x}", b)));
            let b2 = x.to_ref().to_f64().map(|y| y.to_bits());
            ensure!(v, b2 == Some(want_back), "C14/roundtrip-f64-ref", "ref.to_f64 of the converted f64 bits {:#x} = {:?}", c.bits, b2);
            v
        }
    }
}

#[derive(Clone, Debug, Hash, Serialize, Deserialize)]
pub struct DecToF {
    pub d: D,
}

fn two_pow(k: u32) -> BigInt {
    BigInt::from(1) << (k as usize)
}

pub fn check_to_f64(c: &DecToF) -> Verdict {
    let x = c.d.bd();
    let v_exact = c.d.dec();
    let got = x.to_f64();
    let got_ref = x.to_ref().to_f64();
    let mut v = Verdict::pass(c.d.ndigits() > 17);
    let f = match got {
        Some(f) => f,
        None => return v.with_fail("C14/to_f64-none", "to_f64 returned None"),
    };
    ensure!(v, got_ref.map(|g| g.to_bits()) == Some(f.to_bits()), "C14/to_f64-ref-differs", "value and reference to_f64 differ: {:?} vs {:?}", got, got_ref);
    ensure!(v, !f.is_nan(), "C14/to_f64-nan", "to_f64 returned NaN");
    if v_exact.is_zero() {
        ensure!(v, f == 0.0, "C14/to_f64-zero", "to_f64(0) = {:e}", f);
        return v;
    }
    let negative = v_exact.signum() < 0;
    // sign (a zero result is judged by magnitude below)
    ensure!(v, f == 0.0 || (f < 0.0) == negative, "C14/to_f64-sign", "to_f64 = {:e} for a value of sign {}", f, v_exact.signum());
    let av = v_exact.abs();
    // astronomically small / large magnitudes are decided without aligning scales
    let adj = v_exact.adjusted();
    if adj < -400 {
        v.nontrivial = true;
        v.labels.push("below-normal-range");
        ensure!(v, f.abs() <= f64::from_bits(1), "C14/to_f64-subnormal-tolerance", "to_f64 = {:e} for the tiny value {}", f, v_exact.show());
        return v;
    }
    if adj > 400 {
        v.nontrivial = true;
        v.labels.push("beyond-max");
        ensure!(v, f.is_infinite(), "C14/to_f64-tolerance", "to_f64 = {:e} for the huge value {}", f, v_exact.show());
        return v;
    }
    let min_pos = bdoracle::floatbits::exact_dec(false, 1u64 << 52, -1074); // 2^-1022
    let max = dec_of_f64_bits(f64::MAX.to_bits()).unwrap();
    let step = bdoracle::floatbits::exact_dec(false, 1, -1074);
    let k48 = Dec::new(two_pow(48), 0);
    let below_normal = av.cmp_val(&min_pos) == Ordering::Less;
    v.labels.push(if below_normal {
        "below-normal-range"
    } else if av.cmp_val(&max) == Ordering::Greater {
        "beyond-max"
    } else {
        "normal-range"
    });
    if below_normal || av.cmp_val(&max) == Ordering::Greater {
        v.nontrivial = true;
    }
    if f.is_infinite() {
        // allowed only beyond, or within 2^-48 relative of, f64::MAX:  |v| >= MAX * (1 - 2^-48)  <=>  |v| * 2^48 >= MAX * (2^48 - 1)
        let lhs = av.mul(&k48);
        let rhs = max.mul(&Dec::new(two_pow(48) - 1, 0));
        ensure!(v, lhs.cmp_val(&rhs) != Ordering::Less, "C14/to_f64-spurious-infinity", "to_f64 = {:e} for the finite in-range value {}", f, v_exact.show());
        return v;
    }
    let fd = dec_of_f64_bits(f.to_bits()).unwrap();
    let diff = fd.sub(&v_exact).abs();
    if below_normal {
        ensure!(v, diff.cmp_val(&step) != Ordering::Greater, "C14/to_f64-subnormal-tolerance", "to_f64 = {:e} is more than 2^-1074 away from {}", f, v_exact.show());
    } else {
        // |f - v| * 2^48 <= |v|
        ensure!(v, diff.mul(&k48).cmp_val(&av) != Ordering::Greater, "C14/to_f64-tolerance", "to_f64 = {:e} differs from {} by more than 2^-48 relative", f, v_exact.show());
    }
    v
}

// ---------------------------------------------------------------- enumerations / generators

fn mantissa32(j: u64, seed: u64) -> u32 {
    let m: u32 = (1 << 23) - 1;
    match j {
        0 => 0,
        1 => 1,
        2 => m,
        3 => m - 1,
        4 => 1 << 22,
        5 => (1 << 22) + 1,
        6 => (1 << 22) - 1,
        7..=29 => 1 << (j - 7),
        _ => (gen::SplitMix(seed ^ j.wrapping_mul(0x9e37)).next() as u32) & m,
    }
}

fn mantissa64(j: u64, seed: u64) -> u64 {
    let m: u64 = (1 << 52) - 1;
    match j {
        0 => 0,
        1 => 1,
        2 => m,
        3 => m - 1,
        4 => 1 << 51,
        5 => (1 << 51) + 1,
        6..=57 => 1 << (j - 6),
        _ => gen::SplitMix(seed ^ j.wrapping_mul(0x9e37)).next() & m,
    }
}

/// decimals for to_f64: digits x exponent, halfway points, neighbourhoods of MAX / MIN_POSITIVE / smallest subnormal
fn to_f64_strategy() -> BoxedStrategy<DecToF> {
    let free = (gen::sdigits(400), -400i64..=400).prop_map(|(int, e)| {
        // exponent e of the leading digit
        let nd = int.trim_start_matches('-').len() as i64;
        DecToF { d: D::new(int, nd - 1 - e) }
    });
    let halfway = (any::<u64>(), any::<bool>(), -1i64..=1, 0u32..30).prop_map(|(bits, neg, d, far)| {
        // midpoint between a finite positive double and its successor, +- one unit in a far digit
        // finite, positive, any binade (exponent field 0..2046; MAX itself has no successor and falls back to lo)
        let b = bits & 0x7fff_ffff_ffff_ffff;
        let b = if b >> 52 == 0x7ff { b & 0x7fef_ffff_ffff_ffff } else { b };
        let lo = dec_of_f64_bits(b).unwrap();
        let hi = dec_of_f64_bits(b + 1).unwrap_or_else(|| lo.clone());
        let mid = lo.add(&hi).half();
        let unit = Dec::new(BigInt::from(d), mid.scale + far as i128);
        let m = mid.add(&unit);
        let m = if neg { m.neg() } else { m };
        DecToF { d: D::new(m.int.to_string(), m.scale as i64) }
    });
    let around = (0..4u8, gen::sdigits(25), 0..3u8, any::<bool>()).prop_map(|(which, noise, dir, neg)| {
        let base = match which {
            0 => dec_of_f64_bits(f64::MAX.to_bits()).unwrap(),
            1 => dec_of_f64_bits(f64::MIN_POSITIVE.to_bits()).unwrap(),
            2 => dec_of_f64_bits(1).unwrap(),
            _ => dec_of_f64_bits((f64::MIN_POSITIVE.to_bits()) - 1).unwrap(), // largest subnormal
        };
        // base * (1 +- noise * 10^-k)
        let n = crate::conv::bigint(&noise);
        let k = [3i128, 16, 24][dir as usize];
        let factor = Dec::one().add(&Dec::new(n, k + 25));
        let m = base.mul(&factor);
        let m = if neg { m.neg() } else { m };
        let m = m.canonical();
        DecToF { d: D::new(m.int.to_string(), m.scale as i64) }
    });
    let extreme = (gen::sdigits(30), prop_oneof![(300i64..=340).boxed(), (-340i64..=-300).boxed(), (2_147_483_000i64..=2_147_484_500).boxed(), (-2_147_484_500i64..=-2_147_483_000).boxed(), any::<i64>().boxed(), gen::pow2_scale()]).prop_map(|(int, scale)| DecToF { d: D::new(int, scale) });
    prop_oneof![4 => free, 2 => halfway, 2 => around, 1 => extreme].boxed()
}

pub fn run(ctx: &Ctx) {
    let t = ctx.tier;
    let seed = ctx.seed;
    if t == Tier::Thorough {
        ctx.enumerated("all-f32", "f32", 1u64 << 32, true, "EXHAUSTIVE: all 2^32 f32 bit patterns", |i| Some(F32Bits { bits: i as u32 }), check_f32);
    } else {
        ctx.enumerated(
            "f32-exponent-fields",
            "f32",
            2 * 256 * 70,
            false,
            "every f32 exponent field (0..255) x both signs x 70 mantissas (0, 1, all ones, single bits, pseudo-random)",
            move |i| {
                let sign = (i % 2) as u32;
                let e = ((i / 2) % 256) as u32;
                let j = i / 512;
                Some(F32Bits { bits: (sign << 31) | (e << 23) | mantissa32(j, seed ^ e as u64) })
            },
            check_f32,
        );
    }
    let mj = t.pick(100u64, 400);
    ctx.enumerated(
        "f64-exponent-fields",
        "f64",
        2 * 2048 * mj,
        false,
        "every f64 exponent field (0..2047) x both signs x mantissas (0, 1, all ones, single bits, pseudo-random)",
        move |i| {
            let sign = i % 2;
            let e = (i / 2) % 2048;
            let j = i / 4096;
            Some(F64Bits { bits: (sign << 63) | (e << 52) | mantissa64(j, seed ^ e) })
        },
        check_f64,
    );
    ctx.enumerated(
        "f64-structured",
        "f64",
        53 * 90 * t.pick(12, 200) * 2,
        false,
        "mantissas with every count of trailing zero bits 0..52 (odd part pseudo-random) x every number of fractional bits -10..79 relative to the binary point x both signs: values m / 2^k with m of every width",
        move |i| {
            let mut k = i;
            let neg = k % 2;
            k /= 2;
            let tz = k % 53;
            k /= 53;
            let frac_bits = (k % 90) as i64 - 10; // bits of the odd part below the binary point
            k /= 90;
            let mut rng = gen::SplitMix(seed ^ i.wrapping_mul(0x9e3779b97f4a7c15) ^ k);
            // 53-bit significand: implicit one, random middle, a one at position tz, zeros below
            let width = 53 - tz; // bits of the odd part
            let odd: u64 = if width <= 1 { 1 } else { (1u64 << (width - 1)) | (rng.next() & ((1u64 << (width - 1)) - 1)) | 1 };
            let sig = odd << tz; // 53 bits, top bit set
            // value = odd * 2^(-frac_bits)  =>  sig * 2^(e - 52) with e - 52 = -frac_bits - tz
            let e = 52 - frac_bits - tz as i64;
            let field = e + 1023;
            if !(1..=2046).contains(&field) {
                return None;
            }
            Some(F64Bits { bits: (neg << 63) | ((field as u64) << 52) | (sig & ((1u64 << 52) - 1)) })
        },
        check_f64,
    );
    ctx.generated("random-f64", "f64", t.pick(1_000_000, 30_000_000), "uniformly random f64 bit patterns", || any::<u64>().prop_map(|bits| F64Bits { bits }).boxed(), check_f64);
    ctx.generated("random-f32", "f32", t.pick(1_000_000, 1_000_000), "uniformly random f32 bit patterns", || any::<u32>().prop_map(|bits| F32Bits { bits }).boxed(), check_f32);
    ctx.enumerated(
        "powers-of-ten-to-f64",
        "tof64",
        9 * 700 * 4,
        true,
        "EXHAUSTIVE: d * 10^k for d in 1..9, k in -345..354, written as (d, -k), (d0, -k+1), (d000, -k+3) and its negation: decimal exponents across the whole f64 range incl. the overflow and underflow thresholds",
        |i| {
            let mut j = i;
            let form = j % 4;
            j /= 4;
            let d = 1 + j % 9;
            let k = (j / 9) as i64 - 345;
            let (digits, scale) = match form {
                0 => (d.to_string(), -k),
                1 => (format!("{}0", d), -k + 1),
                2 => (format!("{}000", d), -k + 3),
                _ => (format!("-{}", d), -k),
            };
            Some(DecToF { d: D::new(digits, scale) })
        },
        check_to_f64,
    );
    ctx.generated("decimal-to-f64", "tof64", t.pick(200_000, 4_000_000), "decimals of 1..400 digits with exponents -400..400; exact midpoints between adjacent doubles +-1 far unit; neighbourhoods of MAX, MIN_POSITIVE, the largest and smallest subnormal; extreme scales (beyond i32, random i64)", to_f64_strategy, check_to_f64);
}
