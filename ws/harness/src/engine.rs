//! Engine: stages (regress / enumerate / generate), parallel runners, known-finding
//! table, replay files, evidence.

use proptest::strategy::{BoxedStrategy, Strategy, ValueTree};
use proptest::test_runner::{Config, RngSeed, TestCaseError, TestError, TestRunner};
use serde::de::DeserializeOwned;
use serde::Serialize;
use std::cell::RefCell;
use std::collections::hash_map::DefaultHasher;
use std::collections::{BTreeMap, HashSet};
use std::fmt::Debug;
use std::hash::{Hash, Hasher};
use std::panic::{catch_unwind, AssertUnwindSafe};
use std::path::{Path, PathBuf};
use std::sync::atomic::{AtomicBool, AtomicU64, Ordering as AO};
use std::sync::Mutex;
use std::time::Instant;

pub const VERIF_ROOT: &str = "/verif";

#[derive(Clone, Copy, Debug, PartialEq, Eq)]
pub enum Tier {
    Quick,
    Thorough,
}

impl Tier {
    pub fn name(self) -> &'static str {
        match self {
            Tier::Quick => "quick",
            Tier::Thorough => "thorough",
        }
    }
    /// pick by tier
    pub fn pick<T>(self, q: T, t: T) -> T {
        match self {
            Tier::Quick => q,
            Tier::Thorough => t,
        }
    }
}

#[derive(Clone, Debug)]
pub struct Fail {
    /// short, property-specific classification (looked up in known-findings.txt)
    pub sig: String,
    pub detail: String,
}

#[derive(Clone, Debug, Default)]
pub struct Verdict {
    pub nontrivial: bool,
    pub labels: Vec<&'static str>,
    pub fail: Option<Fail>,
    /// case could not be decided (never a violation)
    pub inconclusive: Option<String>,
}

impl Verdict {
    pub fn pass(nontrivial: bool) -> Verdict {
        Verdict { nontrivial, ..Default::default() }
    }
    pub fn label(mut self, l: &'static str) -> Verdict {
        self.labels.push(l);
        self
    }
    pub fn fail(sig: impl Into<String>, detail: impl Into<String>) -> Verdict {
        Verdict { nontrivial: true, labels: vec![], fail: Some(Fail { sig: sig.into(), detail: detail.into() }), inconclusive: None }
    }
    pub fn with_fail(mut self, sig: impl Into<String>, detail: impl Into<String>) -> Verdict {
        if self.fail.is_none() {
            self.fail = Some(Fail { sig: sig.into(), detail: detail.into() });
        }
        self
    }
    pub fn inconclusive(reason: impl Into<String>) -> Verdict {
        Verdict { inconclusive: Some(reason.into()), ..Default::default() }
    }
    pub fn is_fail(&self) -> bool {
        self.fail.is_some()
    }
}

/// helper: `ensure!(v, cond, sig, fmt...)` records the first failure
#[macro_export]
macro_rules! ensure {
    ($v:expr, $cond:expr, $sig:expr, $($arg:tt)*) => {
        if $v.fail.is_none() && !($cond) {
            $v.fail = Some($crate::engine::Fail { sig: ($sig).to_string(), detail: format!($($arg)*) });
        }
    };
}

pub trait CaseT: Clone + Debug + Hash + Serialize + DeserializeOwned + Send + Sync + 'static {}
impl<T: Clone + Debug + Hash + Serialize + DeserializeOwned + Send + Sync + 'static> CaseT for T {}

// ---------------------------------------------------------------- known findings

#[derive(Clone, Debug)]
pub struct KnownFinding {
    pub property: String,
    pub sig: String,
    pub what: String,
}

#[derive(Clone, Debug, Default)]
pub struct KnownFindings {
    pub open: Vec<KnownFinding>,
    pub fixed: Vec<String>,
}

impl KnownFindings {
    /// File format, one entry per line:
    ///   open: property=<id> sig=<signature> <what fails>
    ///   fixed: property=<id> <commit> <what failed>
    pub fn load(path: &Path) -> KnownFindings {
        let mut k = KnownFindings::default();
        let text = std::fs::read_to_string(path).unwrap_or_default();
        for line in text.lines() {
            let line = line.trim();
            if line.is_empty() || line.starts_with('#') {
                continue;
            }
            if let Some(rest) = line.strip_prefix("open:") {
                let mut property = String::new();
                let mut sig = String::new();
                let mut what = Vec::new();
                for tok in rest.split_whitespace() {
                    if property.is_empty() && tok.starts_with("property=") {
                        property = tok["property=".len()..].to_string();
                    } else if sig.is_empty() && tok.starts_with("sig=") {
                        sig = tok["sig=".len()..].to_string();
                    } else {
                        what.push(tok);
                    }
                }
                if !property.is_empty() && !sig.is_empty() {
                    k.open.push(KnownFinding { property, sig, what: what.join(" ") });
                }
            } else if line.starts_with("fixed:") {
                k.fixed.push(line.to_string());
            }
        }
        k
    }

    pub fn lookup(&self, property: &str, sig: &str) -> Option<usize> {
        self.open.iter().position(|f| f.property == property && f.sig == sig)
    }
}

// ---------------------------------------------------------------- panic capture

thread_local! {
    static LAST_PANIC: RefCell<Option<String>> = RefCell::new(None);
}

pub fn install_quiet_panic_hook() {
    std::panic::set_hook(Box::new(|info| {
        let msg = if let Some(s) = info.payload().downcast_ref::<&str>() {
            s.to_string()
        } else if let Some(s) = info.payload().downcast_ref::<String>() {
            s.clone()
        } else {
            "<non-string panic>".to_string()
        };
        let loc = info.location().map(|l| format!("{}:{}", l.file(), l.line())).unwrap_or_default();
        // a panic raised by the harness or the oracle itself (never expected) is shown: if it happens inside a
        // generator it ends the run with exit 101 (reported by ./check as an infrastructure error, exit 2)
        if loc.contains("harness/src") || loc.contains("oracle/src") || loc.contains("cfgprobe/src") {
            eprintln!("harness panic: {} @ {}", msg, loc);
        }
        LAST_PANIC.with(|p| *p.borrow_mut() = Some(format!("{} @ {}", msg, loc)));
    }));
}

pub fn take_last_panic() -> String {
    LAST_PANIC.with(|p| p.borrow_mut().take()).unwrap_or_else(|| "<unknown panic>".into())
}

/// run f, converting a panic into Err(message)
pub fn catch<R>(f: impl FnOnce() -> R) -> Result<R, String> {
    match catch_unwind(AssertUnwindSafe(f)) {
        Ok(r) => Ok(r),
        Err(_) => Err(take_last_panic()),
    }
}

/// normalise a panic message into a signature fragment (strip numbers that vary)
pub fn panic_sig(msg: &str) -> String {
    let head: String = msg.chars().take(60).collect();
    let mut out = String::new();
    let mut last_digit = false;
    for c in head.chars() {
        if c.is_ascii_digit() {
            if !last_digit {
                out.push('N');
            }
            last_digit = true;
        } else {
            last_digit = false;
            out.push(if c.is_whitespace() { '_' } else { c });
        }
    }
    out
}

// ---------------------------------------------------------------- report

#[derive(Clone, Debug, Default, Serialize)]
pub struct StageReport {
    pub stage: String,
    pub kind: String,
    pub mode: String, // regress | enumerated | generated
    pub flavour: String,
    pub evaluations: u64,
    pub nontrivial: u64,
    pub distinct_nontrivial: u64,
    pub exhaustive: bool,
    pub inconclusive: u64,
    pub known_finding_hits: u64,
    pub labels: BTreeMap<String, u64>,
    pub samples: Vec<serde_json::Value>,
    pub wall_s: f64,
    pub note: String,
}

#[derive(Clone, Debug, Serialize)]
pub struct ViolationRecord {
    pub stage: String,
    pub sig: String,
    pub detail: String,
    pub replay: String,
}

#[derive(Default)]
pub struct Report {
    pub stages: Vec<StageReport>,
    pub violations: Vec<ViolationRecord>,
    pub known_hits: BTreeMap<String, (u64, String)>, // sig -> (count, first example)
    pub notes: Vec<String>,
}

pub enum RunMode {
    Normal,
    /// only stages whose kind matches run, on exactly these cases
    Replay(Vec<(String, serde_json::Value, String)>), // (kind, case, source file)
}

pub struct Ctx {
    pub prop: &'static str,
    pub tier: Tier,
    pub seed: u64,
    pub flavour: &'static str,
    pub threads: usize,
    pub known: KnownFindings,
    pub report: Mutex<Report>,
    pub mode: Mutex<RunMode>,
    pub stop: AtomicBool,
    pub strict: bool,
    pub replays_seen: AtomicU64,
    pub replayed_kinds: Mutex<HashSet<String>>,
    /// extra context stored in replay files (C20: the build configuration)
    pub extra: Mutex<Option<serde_json::Value>>,
    pub start: Instant,
}

fn mix(seed: u64, prop: &str, stage: &str, worker: u64) -> u64 {
    let mut h = DefaultHasher::new();
    seed.hash(&mut h);
    prop.hash(&mut h);
    stage.hash(&mut h);
    worker.hash(&mut h);
    h.finish()
}

fn case_hash<C: Hash>(c: &C) -> u64 {
    let mut h = DefaultHasher::new();
    c.hash(&mut h);
    h.finish()
}

#[derive(Default)]
struct Local {
    evaluations: u64,
    nontrivial: u64,
    distinct: HashSet<u64>,
    inconclusive: u64,
    known_hits: u64,
    labels: BTreeMap<&'static str, u64>,
    samples: Vec<serde_json::Value>,
}

impl Local {
    fn merge(&mut self, o: Local) {
        self.evaluations += o.evaluations;
        self.nontrivial += o.nontrivial;
        self.distinct.extend(o.distinct);
        self.inconclusive += o.inconclusive;
        self.known_hits += o.known_hits;
        for (k, v) in o.labels {
            *self.labels.entry(k).or_insert(0) += v;
        }
        for s in o.samples {
            if self.samples.len() < 6 {
                self.samples.push(s);
            }
        }
    }
}

impl Ctx {
    pub fn new(prop: &'static str, tier: Tier, seed: u64, flavour: &'static str) -> Ctx {
        let threads = std::env::var("VERIF_THREADS")
            .ok()
            .and_then(|s| s.parse().ok())
            .unwrap_or_else(|| std::thread::available_parallelism().map(|n| n.get()).unwrap_or(8));
        Ctx {
            prop,
            tier,
            seed,
            flavour,
            threads,
            known: KnownFindings::load(&Path::new(VERIF_ROOT).join("known-findings.txt")),
            report: Mutex::new(Report::default()),
            mode: Mutex::new(RunMode::Normal),
            stop: AtomicBool::new(false),
            strict: false,
            replays_seen: AtomicU64::new(0),
            replayed_kinds: Mutex::new(HashSet::new()),
            extra: Mutex::new(None),
            start: Instant::now(),
        }
    }

    pub fn note(&self, s: impl Into<String>) {
        self.report.lock().unwrap().notes.push(s.into());
    }

    fn replay_cases_for(&self, kind: &str) -> Option<Vec<(serde_json::Value, String)>> {
        match &*self.mode.lock().unwrap() {
            RunMode::Normal => None,
            RunMode::Replay(list) => {
                // several stages may share a kind (same case type and check): replay once
                if !self.replayed_kinds.lock().unwrap().insert(kind.to_string()) {
                    return Some(Vec::new());
                }
                Some(list.iter().filter(|(k, _, _)| k == kind).map(|(_, c, f)| (c.clone(), f.clone())).collect())
            }
        }
    }

    /// classify one verdict; returns Some(fail) if it is an *unlisted* violation
    fn account<C: CaseT>(&self, local: &mut Local, case: &C, v: Verdict, exact_distinct: bool) -> Option<Fail> {
        local.evaluations += 1;
        if v.inconclusive.is_some() {
            local.inconclusive += 1;
        }
        for l in &v.labels {
            *local.labels.entry(l).or_insert(0) += 1;
        }
        if v.nontrivial {
            local.nontrivial += 1;
            if exact_distinct {
                local.distinct.insert(case_hash(case));
            }
            if local.samples.len() < 3 {
                local.samples.push(serde_json::to_value(case).unwrap_or(serde_json::Value::Null));
            }
        }
        if let Some(f) = v.fail {
            if !self.strict {
                if let Some(_) = self.known.lookup(self.prop, &f.sig) {
                    local.known_hits += 1;
                    let mut rep = self.report.lock().unwrap();
                    let e = rep.known_hits.entry(f.sig.clone()).or_insert((0, String::new()));
                    e.0 += 1;
                    if e.1.is_empty() {
                        e.1 = format!("{} :: {}", f.detail, truncate(&format!("{:?}", case), 400));
                    }
                    return None;
                }
            }
            return Some(f);
        }
        None
    }

    fn run_check<C: CaseT>(&self, check: &(impl Fn(&C) -> Verdict + Sync), case: &C) -> Verdict {
        match catch_unwind(AssertUnwindSafe(|| check(case))) {
            Ok(v) => v,
            Err(_) => {
                let msg = take_last_panic();
                Verdict::fail(format!("{}/panic:{}", self.prop, panic_sig(&msg)), format!("panicked: {}", msg))
            }
        }
    }

    fn record_violation<C: CaseT>(&self, stage: &str, kind: &str, case: &C, f: &Fail) {
        let dir = Path::new(VERIF_ROOT).join("replays");
        let _ = std::fs::create_dir_all(&dir);
        let body = serde_json::json!({
            "property": self.prop,
            "kind": kind,
            "stage": stage,
            "flavour": self.flavour,
            "sig": f.sig,
            "detail": f.detail,
            "config": self.extra.lock().unwrap().clone(),
            "case": case,
        });
        let text = serde_json::to_string_pretty(&body).unwrap();
        let mut h = DefaultHasher::new();
        text.hash(&mut h);
        let path: PathBuf = dir.join(format!("{}-{}-{:016x}.json", self.prop, kind, h.finish()));
        let _ = std::fs::write(&path, text);
        println!("VIOLATION property={} replay={}", self.prop, path.display());
        println!("  stage={} sig={} detail={}", stage, f.sig, truncate(&f.detail, 600));
        println!("  case={}", truncate(&format!("{:?}", case), 1200));
        self.report.lock().unwrap().violations.push(ViolationRecord {
            stage: stage.to_string(),
            sig: f.sig.clone(),
            detail: f.detail.clone(),
            replay: path.display().to_string(),
        });
        self.stop.store(true, AO::SeqCst);
    }

    fn finish_stage(&self, stage: &str, kind: &str, mode: &str, local: Local, exhaustive: bool, exact_distinct: bool, t0: Instant, note: &str) {
        let sr = StageReport {
            stage: stage.to_string(),
            kind: kind.to_string(),
            mode: mode.to_string(),
            flavour: self.flavour.to_string(),
            evaluations: local.evaluations,
            nontrivial: local.nontrivial,
            distinct_nontrivial: if exact_distinct { local.distinct.len() as u64 } else { local.nontrivial },
            exhaustive,
            inconclusive: local.inconclusive,
            known_finding_hits: local.known_hits,
            labels: local.labels.iter().map(|(k, v)| (k.to_string(), *v)).collect(),
            samples: local.samples,
            wall_s: t0.elapsed().as_secs_f64(),
            note: note.to_string(),
        };
        eprintln!(
            "[{} {} {}] stage {:<28} {:>11} evals {:>11} nontrivial {:>6} known {:>4} inconcl  {:.2}s",
            self.prop, self.tier.name(), self.flavour, sr.stage, sr.evaluations, sr.distinct_nontrivial, sr.known_finding_hits, sr.inconclusive, sr.wall_s
        );
        self.report.lock().unwrap().stages.push(sr);
    }

    fn do_replay<C: CaseT>(&self, stage: &str, kind: &str, cases: Vec<(serde_json::Value, String)>, check: &(impl Fn(&C) -> Verdict + Sync)) {
        if cases.is_empty() {
            return;
        }
        let t0 = Instant::now();
        let mut local = Local::default();
        for (val, file) in cases {
            self.replays_seen.fetch_add(1, AO::SeqCst);
            let case: C = match serde_json::from_value(val) {
                Ok(c) => c,
                Err(e) => {
                    self.note(format!("replay file {} does not decode as kind {}: {}", file, kind, e));
                    eprintln!("replay file {} does not decode as kind {}: {}", file, kind, e);
                    continue;
                }
            };
            let v = self.run_check(check, &case);
            if let Some(f) = self.account(&mut local, &case, v, true) {
                self.record_violation(&format!("regress:{}", stage), kind, &case, &f);
                eprintln!("  (from {})", file);
            }
        }
        self.finish_stage(&format!("regress:{}", stage), kind, "regress", local, false, true, t0, "");
    }

    /// Exhaustive / grid stage: `make(i)` for i in 0..total, partitioned over threads.
    /// `make` may return None for indices that do not denote a case.
    pub fn enumerated<C: CaseT>(
        &self,
        stage: &str,
        kind: &str,
        total: u64,
        exhaustive: bool,
        note: &str,
        make: impl Fn(u64) -> Option<C> + Sync,
        check: impl Fn(&C) -> Verdict + Sync,
    ) {
        if let Some(cases) = self.replay_cases_for(kind) {
            self.do_replay(stage, kind, cases, &check);
            return;
        }
        if self.stop.load(AO::SeqCst) {
            return;
        }
        let t0 = Instant::now();
        let threads = self.threads.max(1) as u64;
        // interleaved chunks so that every thread sees every region
        let chunk: u64 = (total / (threads * 64)).clamp(1, 1 << 16);
        let next = AtomicU64::new(0);
        let merged = Mutex::new(Local::default());
        let first_fail: Mutex<Option<(u64, C, Fail)>> = Mutex::new(None);
        std::thread::scope(|s| {
            for _ in 0..threads {
                s.spawn(|| {
                    let mut local = Local::default();
                    loop {
                        if self.stop.load(AO::Relaxed) {
                            break;
                        }
                        let lo = next.fetch_add(chunk, AO::Relaxed);
                        if lo >= total {
                            break;
                        }
                        let hi = (lo + chunk).min(total);
                        for i in lo..hi {
                            let case = match make(i) {
                                Some(c) => c,
                                None => continue,
                            };
                            let v = self.run_check(&check, &case);
                            if let Some(f) = self.account(&mut local, &case, v, false) {
                                let mut ff = first_fail.lock().unwrap();
                                if ff.as_ref().map(|(j, _, _)| i < *j).unwrap_or(true) {
                                    *ff = Some((i, case, f));
                                }
                                self.stop.store(true, AO::SeqCst);
                                break;
                            }
                        }
                    }
                    merged.lock().unwrap().merge(local);
                });
            }
        });
        let local = merged.into_inner().unwrap();
        if let Some((_, case, f)) = first_fail.into_inner().unwrap() {
            self.record_violation(stage, kind, &case, &f);
        }
        self.finish_stage(stage, kind, "enumerated", local, exhaustive, false, t0, note);
    }

    /// Generated stage: one proptest TestRunner per worker thread.
    pub fn generated<C: CaseT>(
        &self,
        stage: &str,
        kind: &str,
        cases: u64,
        note: &str,
        strategy: impl Fn() -> BoxedStrategy<C> + Sync,
        check: impl Fn(&C) -> Verdict + Sync,
    ) {
        if let Some(cs) = self.replay_cases_for(kind) {
            self.do_replay(stage, kind, cs, &check);
            return;
        }
        if self.stop.load(AO::SeqCst) {
            return;
        }
        let t0 = Instant::now();
        // thorough tier, checked build: the generated stages of the properties that joined the checked build late run a
        // quarter of the cases (the exhaustive stages run in full); the evidence reports the actual counts
        let cases = if self.flavour == "chk" && matches!(self.tier, Tier::Thorough) && !["C02", "C03", "C05", "C17", "C19"].contains(&self.prop) { (cases / 4).max(1) } else { cases };
        let workers = (self.threads.max(1) as u64).min(cases.max(1));
        let per = (cases + workers - 1) / workers;
        let merged = Mutex::new(Local::default());
        let failures: Mutex<Vec<(C, Fail)>> = Mutex::new(Vec::new());
        std::thread::scope(|s| {
            for w in 0..workers {
                let merged = &merged;
                let failures = &failures;
                let strategy = &strategy;
                let check = &check;
                s.spawn(move || {
                    let cfg = Config {
                        cases: per as u32,
                        failure_persistence: None,
                        rng_seed: RngSeed::Fixed(mix(self.seed, self.prop, stage, w)),
                        max_shrink_iters: 2000,
                        max_global_rejects: 1 << 20,
                        verbose: 0,
                        ..Config::default()
                    };
                    let mut runner = TestRunner::new(cfg);
                    let local = RefCell::new(Local::default());
                    let failed = RefCell::new(None::<Fail>);
                    let strat = strategy();
                    let result = runner.run(&strat, |case| {
                        if failed.borrow().is_some() {
                            // shrinking: re-evaluate without counting
                            let v = self.run_check(check, &case);
                            return match v.fail {
                                Some(f) if self.strict || self.known.lookup(self.prop, &f.sig).is_none() => {
                                    *failed.borrow_mut() = Some(f.clone());
                                    Err(TestCaseError::fail(f.sig))
                                }
                                _ => Ok(()),
                            };
                        }
                        if self.stop.load(AO::Relaxed) {
                            return Ok(());
                        }
                        let v = self.run_check(check, &case);
                        match self.account(&mut local.borrow_mut(), &case, v, true) {
                            None => Ok(()),
                            Some(f) => {
                                *failed.borrow_mut() = Some(f.clone());
                                Err(TestCaseError::fail(f.sig))
                            }
                        }
                    });
                    match result {
                        Ok(()) => {}
                        Err(TestError::Fail(_, shrunk)) => {
                            // re-evaluate the shrunk case to get its own detail
                            let v = self.run_check(check, &shrunk);
                            let f = v.fail.or_else(|| failed.borrow().clone()).unwrap_or(Fail { sig: "unknown".into(), detail: String::new() });
                            failures.lock().unwrap().push((shrunk, f));
                            self.stop.store(true, AO::SeqCst);
                        }
                        Err(TestError::Abort(reason)) => {
                            self.note(format!("stage {} worker {} aborted: {}", stage, w, reason));
                        }
                    }
                    merged.lock().unwrap().merge(local.into_inner());
                });
            }
        });
        let local = merged.into_inner().unwrap();
        let fails = failures.into_inner().unwrap();
        // report the smallest (by debug length) shrunk failure
        if let Some((case, f)) = fails.into_iter().min_by_key(|(c, _)| format!("{:?}", c).len()) {
            self.record_violation(stage, kind, &case, &f);
        }
        self.finish_stage(stage, kind, "generated", local, false, true, t0, note);
    }

    /// Explicit list of cases (e.g. hand-picked boundary values); counted like an
    /// enumerated stage with exact distinct counting.
    pub fn listed<C: CaseT>(&self, stage: &str, kind: &str, note: &str, cases: Vec<C>, check: impl Fn(&C) -> Verdict + Sync) {
        if let Some(cs) = self.replay_cases_for(kind) {
            self.do_replay(stage, kind, cs, &check);
            return;
        }
        if self.stop.load(AO::SeqCst) {
            return;
        }
        let t0 = Instant::now();
        let mut local = Local::default();
        for case in &cases {
            let v = self.run_check(&check, case);
            if let Some(f) = self.account(&mut local, case, v, true) {
                self.record_violation(stage, kind, case, &f);
                break;
            }
        }
        self.finish_stage(stage, kind, "listed", local, false, true, t0, note);
    }
}

pub fn truncate(s: &str, n: usize) -> String {
    if s.chars().count() <= n {
        s.to_string()
    } else {
        let head: String = s.chars().take(n).collect();
        format!("{}…[{} chars]", head, s.chars().count())
    }
}

/// load every replay file under regress/<prop>/
pub fn load_regress(prop: &str) -> Vec<(String, serde_json::Value, String)> {
    let dir = Path::new(VERIF_ROOT).join("regress").join(prop);
    let mut out = Vec::new();
    let mut names: Vec<PathBuf> = match std::fs::read_dir(&dir) {
        Ok(rd) => rd.filter_map(|e| e.ok()).map(|e| e.path()).filter(|p| p.extension().map(|x| x == "json").unwrap_or(false)).collect(),
        Err(_) => return out,
    };
    names.sort();
    for p in names {
        if let Some(entry) = load_replay_file(&p) {
            out.push(entry);
        }
    }
    out
}

pub fn load_replay_file(p: &Path) -> Option<(String, serde_json::Value, String)> {
    let text = std::fs::read_to_string(p).ok()?;
    let v: serde_json::Value = serde_json::from_str(&text).ok()?;
    let kind = v.get("kind")?.as_str()?.to_string();
    let case = v.get("case")?.clone();
    Some((kind, case, p.display().to_string()))
}

/// sample a strategy once (used for self-tests of generators)
pub fn sample_one<C: Debug>(strat: &BoxedStrategy<C>, seed: u64) -> C {
    let cfg = Config { rng_seed: RngSeed::Fixed(seed), failure_persistence: None, ..Config::default() };
    let mut runner = TestRunner::new(cfg);
    strat.new_tree(&mut runner).unwrap().current()
}

pub fn boxed<S: Strategy + 'static>(s: S) -> BoxedStrategy<S::Value> {
    s.boxed()
}

/// Used by fuzz targets: judge one verdict outside of any stage.  An unlisted failure writes a
/// replay file, prints the VIOLATION line and aborts the process (libFuzzer then saves the input).
pub fn fuzz_judge<C: CaseT>(prop: &'static str, kind: &str, case: &C, v: Verdict) {
    use std::sync::OnceLock;
    static KNOWN: OnceLock<KnownFindings> = OnceLock::new();
    let known = KNOWN.get_or_init(|| KnownFindings::load(&Path::new(VERIF_ROOT).join("known-findings.txt")));
    if let Some(f) = v.fail {
        if known.lookup(prop, &f.sig).is_some() {
            return;
        }
        let dir = Path::new(VERIF_ROOT).join("replays");
        let _ = std::fs::create_dir_all(&dir);
        let body = serde_json::json!({"property": prop, "kind": kind, "stage": "fuzz", "flavour": "fuzz", "sig": f.sig, "detail": f.detail, "config": null, "case": case});
        let text = serde_json::to_string_pretty(&body).unwrap();
        let mut h = DefaultHasher::new();
        text.hash(&mut h);
        let path = dir.join(format!("{}-{}-fuzz-{:016x}.json", prop, kind, h.finish()));
        let _ = std::fs::write(&path, text);
        println!("VIOLATION property={} replay={}", prop, path.display());
        println!("  stage=fuzz sig={} detail={}", f.sig, truncate(&f.detail, 600));
        std::process::abort();
    }
}

/// run a check inside a fuzz target, converting a library panic into a failure verdict
pub fn fuzz_check<C: CaseT>(prop: &'static str, kind: &str, case: &C, check: impl Fn(&C) -> Verdict) {
    let v = match catch_unwind(AssertUnwindSafe(|| check(case))) {
        Ok(v) => v,
        Err(_) => {
            let msg = take_last_panic();
            Verdict::fail(format!("{}/panic:{}", prop, panic_sig(&msg)), format!("panicked: {}", msg))
        }
    };
    fuzz_judge(prop, kind, case, v);
}
