//! bdverif - property-based verification harness for bigdecimal-rs (library part: engine,
//! generators, property checks; used by the `bdverif` binary and by the fuzz targets).
#![allow(dead_code)]
pub mod conv;
pub mod engine;
pub mod fmt_table;
pub mod gen;
pub mod props;
