//! Conversions between the implementation's types and the oracle's.

use crate::gen::D;
use bdoracle::{Dec, Mode};
use bigdecimal::{BigDecimal, RoundingMode};
use num_bigint::BigInt;

pub fn bigint(s: &str) -> BigInt {
    s.parse().expect("harness: bad integer string in case")
}

impl D {
    pub fn bd(&self) -> BigDecimal {
        BigDecimal::new(bigint(&self.int), self.scale)
    }
    pub fn dec(&self) -> Dec {
        Dec::new(bigint(&self.int), self.scale as i128)
    }
    pub fn bigint(&self) -> BigInt {
        bigint(&self.int)
    }
    pub fn of(b: &BigDecimal) -> D {
        let (i, s) = b.as_bigint_and_exponent();
        D { int: i.to_string(), scale: s }
    }
}

/// observe a result through the documented accessor
pub fn dec_of(b: &BigDecimal) -> Dec {
    let (i, s) = b.as_bigint_and_exponent();
    Dec::new(i, s as i128)
}

pub fn rm(m: Mode) -> RoundingMode {
    match m {
        Mode::Up => RoundingMode::Up,
        Mode::Down => RoundingMode::Down,
        Mode::Ceiling => RoundingMode::Ceiling,
        Mode::Floor => RoundingMode::Floor,
        Mode::HalfUp => RoundingMode::HalfUp,
        Mode::HalfDown => RoundingMode::HalfDown,
        Mode::HalfEven => RoundingMode::HalfEven,
    }
}

pub fn mode_of(m: RoundingMode) -> Mode {
    match m {
        RoundingMode::Up => Mode::Up,
        RoundingMode::Down => Mode::Down,
        RoundingMode::Ceiling => Mode::Ceiling,
        RoundingMode::Floor => Mode::Floor,
        RoundingMode::HalfUp => Mode::HalfUp,
        RoundingMode::HalfDown => Mode::HalfDown,
        RoundingMode::HalfEven => Mode::HalfEven,
    }
}

/// The build-time configuration, read from the same environment variables the
/// library's build script reads (NOT from the library).
#[derive(Clone, Copy, Debug)]
pub struct BuildCfg {
    pub precision: u64,
    pub mode: Mode,
    pub lower: u64,
    pub upper: u64,
    pub padding: u64,
    pub serde_limit: i64,
}

pub fn build_cfg() -> BuildCfg {
    fn num(v: Option<&'static str>, d: u64) -> u64 {
        v.and_then(|s| s.parse().ok()).unwrap_or(d)
    }
    BuildCfg {
        precision: num(option_env!("RUST_BIGDECIMAL_DEFAULT_PRECISION"), 100),
        mode: option_env!("RUST_BIGDECIMAL_DEFAULT_ROUNDING_MODE").and_then(Mode::from_name).unwrap_or(Mode::HalfEven),
        lower: num(option_env!("RUST_BIGDECIMAL_FMT_EXPONENTIAL_LOWER_THRESHOLD"), 5),
        upper: num(option_env!("RUST_BIGDECIMAL_FMT_EXPONENTIAL_UPPER_THRESHOLD"), 15),
        padding: num(option_env!("RUST_BIGDECIMAL_FMT_MAX_INTEGER_PADDING"), 1000),
        serde_limit: num(option_env!("RUST_BIGDECIMAL_SERDE_SCALE_LIMIT"), 150000) as i64,
    }
}
