//! Generator toolkit.  Everything is a proptest strategy built by construction
//! (no rejection); long digit strings are a pure function of a generated seed.

use num_bigint::BigUint;
use proptest::prelude::*;
use proptest::strategy::BoxedStrategy;
use serde::{Deserialize, Serialize};

/// A decimal as it appears in cases and replay files: unscaled integer as a
/// decimal string (optional leading '-') and the scale.
#[derive(Clone, Debug, Hash, PartialEq, Eq, Serialize, Deserialize)]
pub struct D {
    pub int: String,
    pub scale: i64,
}

impl D {
    pub fn new(int: impl Into<String>, scale: i64) -> D {
        D { int: int.into(), scale }
    }
    pub fn is_zero(&self) -> bool {
        self.int.trim_start_matches('-').bytes().all(|b| b == b'0')
    }
    pub fn is_neg(&self) -> bool {
        self.int.starts_with('-') && !self.is_zero()
    }
    pub fn ndigits(&self) -> usize {
        if self.is_zero() {
            1
        } else {
            self.int.trim_start_matches('-').trim_start_matches('0').len()
        }
    }
    pub fn negated(&self) -> D {
        if self.is_zero() {
            self.clone()
        } else if let Some(r) = self.int.strip_prefix('-') {
            D::new(r, self.scale)
        } else {
            D::new(format!("-{}", self.int), self.scale)
        }
    }
}

pub struct SplitMix(pub u64);
impl SplitMix {
    pub fn next(&mut self) -> u64 {
        self.0 = self.0.wrapping_add(0x9e3779b97f4a7c15);
        let mut z = self.0;
        z = (z ^ (z >> 30)).wrapping_mul(0xbf58476d1ce4e5b9);
        z = (z ^ (z >> 27)).wrapping_mul(0x94d049bb133111eb);
        z ^ (z >> 31)
    }
    pub fn below(&mut self, n: u64) -> u64 {
        if n == 0 {
            0
        } else {
            ((self.next() as u128 * n as u128) >> 64) as u64
        }
    }
}

pub const SHAPES: &[&str] = &[
    "uniform", "nines", "pow10", "one0one", "sparse", "densenines", "tie", "neartie_below", "neartie_above", "words",
    "trailzeros", "small", "near-pow2", "all-ones-limbs", "binary-tail", "sparse-limbs",
];

/// The raw material of a digit string.
#[derive(Clone, Debug)]
pub struct DigSpec {
    pub shape: u8,
    pub len: usize,
    pub head: Vec<u8>,
    pub seed: u64,
    pub aux: u32,
}

fn fill_digits(out: &mut Vec<u8>, n: usize, head: &[u8], rng: &mut SplitMix) {
    for i in 0..n {
        if i < head.len() {
            out.push(head[i] % 10);
        } else {
            out.push(rng.below(10) as u8);
        }
    }
}

/// boundary 32-bit words: floor(2^64/10^k) (whole or split), floor(2^32/10^j), extremes
pub fn boundary_words() -> Vec<u32> {
    let mut v: Vec<u32> = vec![0, 1, 2, u32::MAX, u32::MAX - 1, 1 << 31, (1 << 31) - 1];
    for k in 1..=19u32 {
        let w: u128 = (1u128 << 64) / 10u128.pow(k);
        for d in [-1i128, 0, 1] {
            let x = (w as i128 + d) as u128;
            if x <= u32::MAX as u128 {
                v.push(x as u32);
            } else {
                v.push(x as u32);
                v.push((x >> 32) as u32);
            }
        }
    }
    for j in 1..=9u32 {
        let w = (1u64 << 32) / 10u64.pow(j);
        for d in [-1i64, 0, 1] {
            v.push((w as i64 + d) as u32);
        }
    }
    v.sort();
    v.dedup();
    v
}

/// Number of head digits in front of the tail for the tail families (shapes 6, 7, 8: tie / below / above;
/// 10: trailing zeros; 14: binary tail), as `digits_of` places it; for other shapes a position inside the string
pub fn tail_cut(spec: &DigSpec) -> u64 {
    let len = spec.len.max(1);
    (match spec.shape % SHAPES.len() as u8 {
        6 | 7 | 8 => {
            let len = len.max(3);
            1 + (spec.aux as usize % (len - 2))
        }
        10 => {
            let len = len.max(2);
            1 + (spec.aux as usize % (len - 1))
        }
        14 => {
            let len = len.max(8);
            1 + (spec.aux as usize % (len - 2).max(1)).min(len - 3)
        }
        _ => {
            if len >= 3 {
                1 + (spec.aux as usize % (len - 2))
            } else {
                1
            }
        }
    }) as u64
}

/// Materialise an unsigned digit string (no leading zeros; "0" possible only for shape small)
pub fn digits_of(spec: &DigSpec) -> String {
    let len = spec.len.max(1);
    let mut rng = SplitMix(spec.seed);
    let mut d: Vec<u8> = Vec::with_capacity(len);
    match spec.shape % SHAPES.len() as u8 {
        0 => fill_digits(&mut d, len, &spec.head, &mut rng),
        1 => d.resize(len, 9),
        2 => {
            d.push(1);
            d.resize(len, 0);
        }
        3 => {
            d.push(1);
            d.resize(len.max(2) - 1, 0);
            d.push(1);
        }
        4 => {
            d.resize(len, 0);
            let k = 1 + (spec.aux as usize % 4);
            for _ in 0..k {
                let i = rng.below(len as u64) as usize;
                d[i] = 1 + rng.below(9) as u8;
            }
        }
        5 => {
            d.resize(len, 9);
            let k = spec.aux as usize % 3;
            for _ in 0..k {
                let i = rng.below(len as u64) as usize;
                d[i] = rng.below(9) as u8;
            }
        }
        6 | 7 | 8 => {
            // head digits, then a tail that is a tie / just below / just above
            let len = len.max(3);
            let cut = 1 + (spec.aux as usize % (len - 2)); // head length in 1..=len-2
            fill_digits(&mut d, cut, &spec.head, &mut rng);
            let tail = len - cut; // >= 2
            match spec.shape % SHAPES.len() as u8 {
                6 => {
                    d.push(5);
                    d.resize(len, 0);
                }
                7 => {
                    d.push(4);
                    for _ in 0..tail - 2 {
                        d.push(9);
                    }
                    d.push(rng.below(10) as u8);
                }
                _ => {
                    d.push(5);
                    for _ in 0..tail - 2 {
                        d.push(0);
                    }
                    d.push(1 + rng.below(9) as u8);
                }
            }
        }
        9 => {
            // words: number of 32-bit words from len (approx 9.6 digits per word)
            let nwords = (len / 9).clamp(1, 600);
            let bw = boundary_words();
            let mut words = Vec::with_capacity(nwords);
            for i in 0..nwords {
                let w = if i < spec.head.len() && spec.head[i] < 200 {
                    bw[(spec.head[i] as usize * bw.len()) >> 8]
                } else if rng.below(4) == 0 {
                    rng.next() as u32
                } else {
                    bw[rng.below(bw.len() as u64) as usize]
                };
                words.push(w);
            }
            let n = BigUint::from_slice(&words);
            let s = n.to_str_radix(10);
            return if s == "0" { "1".to_string() } else { s };
        }
        10 => {
            let len = len.max(2);
            let cut = 1 + (spec.aux as usize % (len - 1));
            fill_digits(&mut d, cut, &spec.head, &mut rng);
            d.resize(len, 0);
        }
        11 => {
            let v = spec.aux % 21;
            return v.to_string();
        }
        12 => {
            // 2^k + d, d in -3..=3 (k chosen so that the value has about `len` digits)
            let k = ((len as f64) * 3.3219280949) as usize;
            let p = BigUint::from(1u8) << k.max(2);
            let d = (spec.aux % 7) as i64 - 3;
            let n = if d >= 0 { p + BigUint::from(d as u64) } else { p - BigUint::from((-d) as u64) };
            return n.to_str_radix(10);
        }
        14 => {
            // head digits, then 5 or 0, zeros, then the decimal digits of c * 2^m: a tail that is a
            // near-tie / near-exact in decimal but has many trailing zero BITS
            let len = len.max(8);
            let cut = 1 + (spec.aux as usize % (len - 2).max(1)).min(len - 3);
            fill_digits(&mut d, cut, &spec.head, &mut rng);
            d.push(if spec.aux & 0x100 == 0 { 5 } else { 0 });
            let m = 8 + rng.below(200) as usize;
            let c = 1 + rng.below(9);
            let t = (BigUint::from(c) << m).to_str_radix(10);
            let room = len.saturating_sub(cut + 1);
            let zeros = room.saturating_sub(t.len());
            for _ in 0..zeros {
                d.push(0);
            }
            for b in t.bytes() {
                d.push(b - b'0');
            }
        }
        15 => {
            // 64-bit limbs that are zero (prob 1/2), all ones (1/8) or random, with a non-zero top limb;
            // the low limb is then adjusted so that the value is a multiple of 10^j (j = aux % 5): the
            // limb structure survives although the decimal string ends in zeros
            let m = (len / 19).clamp(2, 300);
            let mut limbs: Vec<u64> = Vec::with_capacity(m);
            for i in 0..m {
                let r = rng.below(8);
                limbs.push(if i + 1 == m {
                    1 + rng.next() % 1000
                } else if r < 4 {
                    0
                } else if r == 4 {
                    u64::MAX
                } else {
                    rng.next()
                });
            }
            let j = spec.aux % 5;
            let mut words: Vec<u32> = Vec::with_capacity(2 * m);
            for l in &limbs {
                words.push(*l as u32);
                words.push((*l >> 32) as u32);
            }
            let mut n = BigUint::from_slice(&words);
            if j > 0 {
                let p = BigUint::from(10u32).pow(j);
                let low = &n % &p;
                // clear the low limb contribution and re-add a multiple of 10^j
                n = &n - &low;
                if n == BigUint::from(0u8) {
                    n = p;
                }
            }
            return n.to_str_radix(10);
        }
        _ => {
            // all-ones limbs: 2^(32 m) - 1 - r for a small r (a carry out of the top limb is one step away)
            let m = (len / 9).clamp(1, 600);
            let p = BigUint::from(1u8) << (32 * m);
            let r = if spec.aux % 3 == 0 { 0u64 } else { rng.below(1_000_000) };
            return (p - 1u8 - BigUint::from(r)).to_str_radix(10);
        }
    }
    if d[0] == 0 {
        d[0] = 1 + (spec.seed % 9) as u8;
    }
    String::from_utf8(d.into_iter().map(|x| b'0' + x).collect()).unwrap()
}

/// log-uniform length in 1..=max
pub fn len_strategy(max: usize) -> BoxedStrategy<usize> {
    let max = max.max(1);
    let bits = (usize::BITS - max.leading_zeros()) as u32; // max < 2^bits
    // digit counts at which an integer stops fitting u32 / u64 / u128 (fast-path boundaries)
    const EDGE: [usize; 12] = [9, 10, 11, 18, 19, 20, 21, 37, 38, 39, 40, 78];
    (0..bits + 2, any::<u32>())
        .prop_map(move |(k, r)| {
            if k >= bits {
                return EDGE[r as usize % EDGE.len()].min(max);
            }
            let lo = 1usize << k;
            let span = lo; // [2^k, 2^(k+1))
            (lo + (r as usize % span)).min(max)
        })
        .boxed()
}

pub fn digspec(max_len: usize) -> BoxedStrategy<DigSpec> {
    (0..SHAPES.len() as u8, len_strategy(max_len), proptest::collection::vec(any::<u8>(), 0..12), any::<u64>(), any::<u32>())
        .prop_map(|(shape, len, head, seed, aux)| DigSpec { shape, len, head, seed, aux })
        .boxed()
}

/// digit spec restricted to the given shapes
pub fn digspec_shapes(max_len: usize, shapes: &'static [u8]) -> BoxedStrategy<DigSpec> {
    (0..shapes.len(), len_strategy(max_len), proptest::collection::vec(any::<u8>(), 0..12), any::<u64>(), any::<u32>())
        .prop_map(move |(si, len, head, seed, aux)| DigSpec { shape: shapes[si], len, head, seed, aux })
        .boxed()
}

/// unsigned non-zero-leading digit string (may be "0" for the `small` shape)
pub fn udigits(max_len: usize) -> BoxedStrategy<String> {
    digspec(max_len).prop_map(|s| digits_of(&s)).boxed()
}

/// signed integer string; zero appears with probability ~ 1/24
pub fn sdigits(max_len: usize) -> BoxedStrategy<String> {
    (udigits(max_len), 0..24u8)
        .prop_map(|(s, k)| {
            if k == 0 {
                "0".to_string()
            } else if k % 2 == 1 && s != "0" {
                format!("-{}", s)
            } else {
                s
            }
        })
        .boxed()
}

/// scale: mostly small, sometimes up to +-limit
pub fn scale_strategy(limit: i64) -> BoxedStrategy<i64> {
    prop_oneof![
        4 => -45i64..=45,
        2 => -700i64..=700,
        1 => -limit..=limit,
        1 => Just(0i64),
    ]
    .boxed()
}

/// scales at truncating-cast boundaries: +-(2^k + d) for k in {7, 8, 15, 16, 31, 32, 33}, d in -2..=21
pub fn pow2_scale() -> BoxedStrategy<i64> {
    (0..7usize, -2i64..=21, any::<bool>(), 1i64..=3)
        .prop_map(|(ki, d, neg, mult)| {
            let k = [7u32, 8, 15, 16, 31, 32, 33][ki];
            let v = mult * (1i64 << k) + d;
            if neg {
                -v
            } else {
                v
            }
        })
        .boxed()
}

pub fn decimal(max_len: usize, scale_limit: i64) -> BoxedStrategy<D> {
    (sdigits(max_len), scale_strategy(scale_limit)).prop_map(|(int, scale)| D { int, scale }).boxed()
}

/// gap between the scales of two operands: every small gap, the algorithm
/// switches around 20 and 590, log-uniform beyond
pub fn gap_strategy(limit: u64) -> BoxedStrategy<u64> {
    prop_oneof![
        6 => 0u64..=45,
        2 => 17u64..=22,
        2 => 586u64..=593,
        2 => len_strategy(limit as usize).prop_map(|x| x as u64),
        // truncating-cast boundaries (gap as u8 / u16)
        1 => (250u64..=280).prop_map(move |g| g.min(limit)),
        1 => prop_oneof![505u64..=535, 761u64..=790, 1020u64..=1050].prop_map(move |g| g.min(limit)),
    ]
    .boxed()
}

pub fn gap_label(g: u64) -> &'static str {
    match g {
        0 => "gap=0",
        1..=19 => "gap=1..19",
        20..=45 => "gap=20..45",
        46..=589 => "gap=46..589",
        _ => "gap>=590",
    }
}

/// monotone index mapping (shrinks toward 0)
pub fn pick_idx(sel: u16, len: usize) -> usize {
    ((sel as usize) * len) >> 16
}

/// serde adapter: Vec<u8> <-> string of chars U+0000..U+00FF (readable for ASCII)
pub mod latin1 {
    use serde::{Deserialize, Deserializer, Serializer};
    pub fn serialize<S: Serializer>(b: &Vec<u8>, s: S) -> Result<S::Ok, S::Error> {
        let t: String = b.iter().map(|&x| x as char).collect();
        s.serialize_str(&t)
    }
    pub fn deserialize<'de, D: Deserializer<'de>>(d: D) -> Result<Vec<u8>, D::Error> {
        let t = String::deserialize(d)?;
        t.chars().map(|c| if (c as u32) < 256 { Ok(c as u32 as u8) } else { Err(serde::de::Error::custom("char above U+00FF in byte string")) }).collect()
    }
}

#[cfg(test)]
mod tests {
    use super::*;
    #[test]
    fn shapes_produce_valid_digits() {
        for shape in 0..SHAPES.len() as u8 {
            for len in [1usize, 2, 3, 5, 19, 20, 21, 100, 700] {
                for seed in 0..5u64 {
                    let s = digits_of(&DigSpec { shape, len, head: vec![3, 0, 250], seed, aux: seed as u32 * 7 });
                    assert!(!s.is_empty() && s.bytes().all(|b| b.is_ascii_digit()), "{} {}", shape, s);
                    assert!(s == "0" || !s.starts_with('0') || shape == 11, "{} {:?}", shape, s);
                }
            }
        }
    }
}
