//! bdverif - property-based verification harness for bigdecimal-rs.
//!
//!   bdverif run <Cnn> <quick|thorough> --out <partial.json>
//!   bdverif replay <file>
//!   bdverif finalize <Cnn> <tier> <evidence.json> <partial.json>...

use bdverif::engine::{self, Ctx, RunMode, Tier};
use bdverif::props;
use std::path::Path;

fn flavour() -> &'static str {
    if cfg!(debug_assertions) {
        "chk"
    } else {
        "rel"
    }
}

fn seed() -> u64 {
    std::env::var("VERIF_SEED").ok().and_then(|s| s.trim().parse::<i128>().ok()).map(|v| v as u64).unwrap_or(0)
}

fn main() {
    let args: Vec<String> = std::env::args().collect();
    engine::install_quiet_panic_hook();
    let code = match args.get(1).map(|s| s.as_str()) {
        Some("run") => cmd_run(&args[2..]),
        Some("replay") => cmd_replay(&args[2..]),
        Some("finalize") => cmd_finalize(&args[2..]),
        Some("selftest") => props::selftest(),
        _ => {
            eprintln!("usage: bdverif run <Cnn> <quick|thorough> --out <file> | replay <file> | finalize ...");
            2
        }
    };
    std::process::exit(code);
}

fn parse_tier(s: &str) -> Option<Tier> {
    match s {
        "quick" => Some(Tier::Quick),
        "thorough" => Some(Tier::Thorough),
        _ => None,
    }
}

fn cmd_run(a: &[String]) -> i32 {
    let (prop, tier) = match (a.get(0), a.get(1).and_then(|t| parse_tier(t))) {
        (Some(p), Some(t)) => (p.clone(), t),
        _ => return 2,
    };
    let out = a.iter().position(|x| x == "--out").and_then(|i| a.get(i + 1)).cloned();
    let prop_static: &'static str = Box::leak(prop.clone().into_boxed_str());
    if !props::exists(prop_static) {
        eprintln!("unknown property {}", prop);
        return 2;
    }
    let ctx = Ctx::new(prop_static, tier, seed(), flavour());
    // stage 1: regression replays
    let reg = engine::load_regress(prop_static);
    if !reg.is_empty() {
        *ctx.mode.lock().unwrap() = RunMode::Replay(reg);
        props::run(&ctx);
        *ctx.mode.lock().unwrap() = RunMode::Normal;
    }
    // stage 2..: enumerate / generate
    if !ctx.stop.load(std::sync::atomic::Ordering::SeqCst) {
        props::run(&ctx);
    }
    let rep = ctx.report.lock().unwrap();
    for (sig, (n, ex)) in rep.known_hits.iter() {
        let what = ctx.known.open.iter().find(|k| k.property == prop && &k.sig == sig).map(|k| k.what.clone()).unwrap_or_default();
        println!("KNOWN-FINDING: property={} sig={} hits={} {} (e.g. {})", prop, sig, n, engine::truncate(&what, 260), engine::truncate(ex, 160));
    }
    let partial = serde_json::json!({
        "property": prop,
        "tier": tier.name(),
        "seed": ctx.seed,
        "flavour": ctx.flavour,
        "stages": rep.stages,
        "violations": rep.violations,
        "known_hits": rep.known_hits.iter().map(|(k, (n, e))| serde_json::json!({"sig": k, "hits": n, "example": e})).collect::<Vec<_>>(),
        "notes": rep.notes,
        "wall_s": ctx.start.elapsed().as_secs_f64(),
    });
    if let Some(out) = out {
        if let Some(dir) = Path::new(&out).parent() {
            let _ = std::fs::create_dir_all(dir);
        }
        std::fs::write(&out, serde_json::to_string_pretty(&partial).unwrap()).expect("write partial");
    }
    if rep.violations.is_empty() {
        0
    } else {
        1
    }
}

fn cmd_replay(a: &[String]) -> i32 {
    let file = match a.get(0) {
        Some(f) => f,
        None => return 2,
    };
    let text = match std::fs::read_to_string(file) {
        Ok(t) => t,
        Err(e) => {
            eprintln!("cannot read {}: {}", file, e);
            return 2;
        }
    };
    let v: serde_json::Value = match serde_json::from_str(&text) {
        Ok(v) => v,
        Err(e) => {
            eprintln!("bad replay file: {}", e);
            return 2;
        }
    };
    let prop = v.get("property").and_then(|p| p.as_str()).unwrap_or("").to_string();
    let prop_static: &'static str = Box::leak(prop.clone().into_boxed_str());
    if !props::exists(prop_static) {
        eprintln!("unknown property {:?} in replay file", prop);
        return 2;
    }
    let entry = match engine::load_replay_file(Path::new(file)) {
        Some(e) => e,
        None => return 2,
    };
    let mut ctx = Ctx::new(prop_static, Tier::Quick, seed(), flavour());
    ctx.strict = std::env::var("VERIF_STRICT").map(|s| s == "1").unwrap_or(false);
    *ctx.mode.lock().unwrap() = RunMode::Replay(vec![entry]);
    props::run(&ctx);
    let rep = ctx.report.lock().unwrap();
    if ctx.replays_seen.load(std::sync::atomic::Ordering::SeqCst) == 0 {
        eprintln!("no stage of {} accepts kind of this replay file", prop);
        return 2;
    }
    for (sig, (n, _)) in rep.known_hits.iter() {
        println!("KNOWN-FINDING: property={} sig={} hits={}", prop, sig, n);
    }
    if rep.violations.is_empty() {
        if rep.known_hits.is_empty() {
            println!("replay [{}]: property {} holds on this case", flavour(), prop);
        } else {
            println!("replay [{}]: this case reproduces only the listed known finding(s) of {}", flavour(), prop);
        }
        0
    } else {
        1
    }
}

fn cmd_finalize(a: &[String]) -> i32 {
    // finalize <Cnn> <tier> <evidence.json> <partial.json>...
    if a.len() < 4 {
        return 2;
    }
    let prop = &a[0];
    let tier = &a[1];
    let out = &a[2];
    let mut stages: Vec<serde_json::Value> = Vec::new();
    let mut violations = 0u64;
    let mut known: Vec<serde_json::Value> = Vec::new();
    let mut notes: Vec<serde_json::Value> = Vec::new();
    let mut wall = 0.0f64;
    let mut seed = 0i64;
    for p in &a[3..] {
        let text = match std::fs::read_to_string(p) {
            Ok(t) => t,
            Err(e) => {
                eprintln!("finalize: cannot read partial {}: {}", p, e);
                return 2;
            }
        };
        let v: serde_json::Value = serde_json::from_str(&text).expect("partial json");
        stages.extend(v["stages"].as_array().cloned().unwrap_or_default());
        violations += v["violations"].as_array().map(|x| x.len() as u64).unwrap_or(0);
        known.extend(v["known_hits"].as_array().cloned().unwrap_or_default());
        notes.extend(v["notes"].as_array().cloned().unwrap_or_default());
        wall += v["wall_s"].as_f64().unwrap_or(0.0);
        seed = v["seed"].as_u64().map(|s| s as i64).unwrap_or(0);
    }
    let evaluations: u64 = stages.iter().map(|s| s["evaluations"].as_u64().unwrap_or(0)).sum();
    let distinct: u64 = stages.iter().filter(|s| s["mode"] != "regress").map(|s| s["distinct_nontrivial"].as_u64().unwrap_or(0)).sum();
    let inconclusive: u64 = stages.iter().map(|s| s["inconclusive"].as_u64().unwrap_or(0)).sum();
    let any_exh = stages.iter().any(|s| s["exhaustive"].as_bool().unwrap_or(false));
    let all_exh = !stages.is_empty() && stages.iter().filter(|s| s["mode"] != "regress").all(|s| s["exhaustive"].as_bool().unwrap_or(false));
    let mut samples: Vec<serde_json::Value> = Vec::new();
    for s in &stages {
        if let Some(arr) = s["samples"].as_array() {
            for c in arr.iter().take(2) {
                samples.push(serde_json::json!({"stage": s["stage"], "flavour": s["flavour"], "case": c}));
            }
        }
    }
    samples.truncate(40);
    let meta = props::meta(prop);
    let ev = serde_json::json!({
        "property_id": prop,
        "tier": tier,
        "seed": seed,
        "level": "exploration",
        "coverage": {
            "evaluations": evaluations,
            "distinct_nontrivial": distinct,
            "rule": meta.rule,
            "samples": samples,
            "exhaustive": all_exh,
            "explanation": format!("{} Stages marked exhaustive enumerate their stated finite scope completely (any_exhaustive_stage={}); all other stages are seed-reproducible proptest generation. distinct_nontrivial sums, per stage, the number of distinct (by structural hash) generated cases, or the count of enumerated tuples, that satisfy the non-triviality rule.", meta.explanation, any_exh),
            "inconclusive": inconclusive,
            "stages": stages.iter().map(|s| { let mut s = s.clone(); s.as_object_mut().map(|o| o.remove("samples")); s }).collect::<Vec<_>>(),
            "known_findings_hit": known,
            "notes": notes,
        },
        "assumptions": meta.assumptions,
        "wall_s": wall,
        "violations": violations,
    });
    if let Some(dir) = Path::new(out).parent() {
        let _ = std::fs::create_dir_all(dir);
    }
    std::fs::write(out, serde_json::to_string_pretty(&ev).unwrap()).expect("write evidence");
    0
}
