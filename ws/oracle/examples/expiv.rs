//! print the enclosure of e^x for arguments "int scale" pairs on the command line (development aid:
//! cross-validation against mpmath)
use bdoracle::expo::exp_interval;
use bdoracle::Dec;
fn main() {
    let a: Vec<String> = std::env::args().skip(1).collect();
    for p in a.chunks(2) {
        let x = Dec::from_str_int(&p[0], p[1].parse().unwrap());
        let iv = exp_interval(&x);
        println!("{} {} {} {}", iv.lo, iv.hi, iv.exp, iv.rel_width_exp10());
    }
}
