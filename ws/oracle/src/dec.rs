//! Exact decimal model: value = int * 10^(-scale), scale kept in i128 so the
//! model itself can never overflow where the implementation's i64 might.

use num_bigint::{BigInt, BigUint, Sign};
use num_traits::{One, Signed, Zero};
use std::cmp::Ordering;

/// 10^k as BigUint, by repeated squaring on num-bigint's `pow` (independent of
/// the implementation's three-algorithm `ten_to_the_uint`).
pub fn pow10(k: u64) -> BigUint {
    if k <= u32::MAX as u64 {
        BigUint::from(10u8).pow(k as u32)
    } else {
        panic!("oracle refuses to materialise 10^{}", k)
    }
}

pub fn pow10i(k: u64) -> BigInt {
    BigInt::from_biguint(Sign::Plus, pow10(k))
}

/// number of decimal digits of |n| (1 for zero), via the decimal string
pub fn ndigits(n: &BigInt) -> u64 {
    ndigits_u(n.magnitude())
}

pub fn ndigits_u(n: &BigUint) -> u64 {
    if n.is_zero() {
        1
    } else {
        n.to_str_radix(10).len() as u64
    }
}

/// number of trailing decimal zeros of |n| (0 for zero)
pub fn trailing_zeros10(n: &BigInt) -> u64 {
    if n.is_zero() {
        return 0;
    }
    let s = n.magnitude().to_str_radix(10);
    (s.len() - s.trim_end_matches('0').len()) as u64
}

#[derive(Clone, Debug, PartialEq, Eq, Hash)]
pub struct Dec {
    pub int: BigInt,
    pub scale: i128,
}

impl Dec {
    pub fn new(int: BigInt, scale: i128) -> Dec {
        Dec { int, scale }
    }

    pub fn from_str_int(s: &str, scale: i128) -> Dec {
        Dec { int: s.parse().expect("oracle: bad integer literal"), scale }
    }

    pub fn zero() -> Dec {
        Dec { int: BigInt::zero(), scale: 0 }
    }

    pub fn one() -> Dec {
        Dec { int: BigInt::one(), scale: 0 }
    }

    pub fn is_zero(&self) -> bool {
        self.int.is_zero()
    }

    pub fn signum(&self) -> i32 {
        match self.int.sign() {
            Sign::Minus => -1,
            Sign::NoSign => 0,
            Sign::Plus => 1,
        }
    }

    /// adjusted exponent e such that |value| in [10^(e-1), 10^e); only for non-zero
    pub fn adjusted(&self) -> i128 {
        ndigits(&self.int) as i128 - self.scale
    }

    /// canonical form: no trailing zeros in int; zero is (0, 0)
    pub fn canonical(&self) -> Dec {
        if self.int.is_zero() {
            return Dec::zero();
        }
        let tz = trailing_zeros10(&self.int);
        if tz == 0 {
            return self.clone();
        }
        Dec { int: &self.int / pow10i(tz), scale: self.scale - tz as i128 }
    }

    pub fn neg(&self) -> Dec {
        Dec { int: -&self.int, scale: self.scale }
    }

    pub fn abs(&self) -> Dec {
        Dec { int: self.int.abs(), scale: self.scale }
    }

    /// integer at the given (finer or equal) scale; panics if target is coarser
    /// and digits would be lost
    pub fn int_at_scale(&self, scale: i128) -> BigInt {
        assert!(scale >= self.scale, "oracle: int_at_scale would lose digits");
        let gap = (scale - self.scale) as u64;
        if gap == 0 {
            self.int.clone()
        } else {
            &self.int * pow10i(gap)
        }
    }

    pub fn add(&self, o: &Dec) -> Dec {
        if self.is_zero() {
            return o.clone();
        }
        if o.is_zero() {
            return self.clone();
        }
        let s = self.scale.max(o.scale);
        Dec { int: self.int_at_scale(s) + o.int_at_scale(s), scale: s }
    }

    pub fn sub(&self, o: &Dec) -> Dec {
        self.add(&o.neg())
    }

    pub fn mul(&self, o: &Dec) -> Dec {
        Dec { int: &self.int * &o.int, scale: self.scale + o.scale }
    }

    /// exact half
    pub fn half(&self) -> Dec {
        Dec { int: &self.int * 5, scale: self.scale + 1 }
    }

    /// truncated remainder a - b*trunc(a/b); b must be non-zero
    pub fn rem_trunc(&self, b: &Dec) -> Dec {
        assert!(!b.is_zero());
        if self.is_zero() {
            return Dec::zero();
        }
        let s = self.scale.max(b.scale);
        let n = self.int_at_scale(s);
        let d = b.int_at_scale(s);
        // BigInt % is truncated (sign of dividend)
        Dec { int: n % d, scale: s }
    }

    /// exact numeric comparison; never materialises a power of ten larger than
    /// the operands' own digit counts require
    pub fn cmp_val(&self, o: &Dec) -> Ordering {
        let sa = self.signum();
        let sb = o.signum();
        if sa != sb {
            return sa.cmp(&sb);
        }
        if sa == 0 {
            return Ordering::Equal;
        }
        let mag = cmp_mag(self, o);
        if sa < 0 {
            mag.reverse()
        } else {
            mag
        }
    }

    pub fn eq_val(&self, o: &Dec) -> bool {
        self.cmp_val(o) == Ordering::Equal
    }

    /// human readable "<int>e<-scale>"
    pub fn show(&self) -> String {
        let s = self.int.to_string();
        if s.len() > 80 {
            format!("{}…{}[{} digits]e{}", &s[..30], &s[s.len() - 30..], ndigits(&self.int), -self.scale)
        } else {
            format!("{}e{}", s, -self.scale)
        }
    }
}

/// compare magnitudes of two non-zero decimals
fn cmp_mag(a: &Dec, b: &Dec) -> Ordering {
    let ea = a.adjusted();
    let eb = b.adjusted();
    if ea != eb {
        return ea.cmp(&eb);
    }
    // same adjusted exponent: the gap between scales equals the gap between digit
    // counts, hence is bounded by the longer operand's length
    let ma = a.int.magnitude();
    let mb = b.int.magnitude();
    match a.scale.cmp(&b.scale) {
        Ordering::Equal => ma.cmp(mb),
        Ordering::Less => (ma * pow10((b.scale - a.scale) as u64)).cmp(mb),
        Ordering::Greater => ma.cmp(&(mb * pow10((a.scale - b.scale) as u64))),
    }
}

#[cfg(test)]
mod tests {
    use super::*;

    fn d(s: &str, sc: i128) -> Dec {
        Dec::from_str_int(s, sc)
    }

    #[test]
    fn cmp_basic() {
        assert_eq!(d("10", 1).cmp_val(&d("1", 0)), Ordering::Equal);
        assert_eq!(d("1", -3).cmp_val(&d("1000", 0)), Ordering::Equal);
        assert_eq!(d("1", -3).cmp_val(&d("1001", 0)), Ordering::Less);
        assert_eq!(d("-1", -3).cmp_val(&d("-1001", 0)), Ordering::Greater);
        assert_eq!(d("0", 5).cmp_val(&d("0", -5)), Ordering::Equal);
        assert_eq!(d("1", i64::MIN as i128).cmp_val(&d("1", i64::MAX as i128)), Ordering::Greater);
        assert_eq!(d("5", 1).cmp_val(&d("-5", 1)), Ordering::Greater);
    }

    #[test]
    fn arith() {
        assert!(d("15", 1).add(&d("25", 2)).eq_val(&d("175", 2)));
        assert!(d("15", 1).sub(&d("25", 2)).eq_val(&d("125", 2)));
        assert!(d("15", 1).mul(&d("25", 2)).eq_val(&d("375", 3)));
        assert!(d("-95", 1).rem_trunc(&d("515", 2)).eq_val(&d("-435", 2)));
        assert!(d("7", 0).rem_trunc(&d("-2", 0)).eq_val(&d("1", 0)));
        assert_eq!(d("1200", 1).canonical(), d("12", -1));
    }
}
