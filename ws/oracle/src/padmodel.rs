//! Model of `core::fmt::Formatter::pad_integral(is_nonnegative, "", body)`.

#[derive(Clone, Copy, Debug, PartialEq, Eq, Hash)]
pub enum Align {
    Left,
    Center,
    Right,
}

#[derive(Clone, Copy, Debug, PartialEq, Eq, Hash)]
pub struct Flags {
    pub plus: bool,
    pub zero: bool,
    pub width: Option<usize>,
    pub fill: char,
    pub align: Option<Align>,
}

/// `body` is the numeral without sign.
pub fn pad_model(nonneg: bool, body: &str, fl: Flags) -> String {
    let sign = if !nonneg {
        "-"
    } else if fl.plus {
        "+"
    } else {
        ""
    };
    let len = sign.chars().count() + body.chars().count();
    let width = match fl.width {
        None => return format!("{}{}", sign, body),
        Some(w) => w,
    };
    if width <= len {
        return format!("{}{}", sign, body);
    }
    let pad = width - len;
    if fl.zero {
        // sign-aware zero padding: sign, zeros, digits; fill and alignment ignored
        return format!("{}{}{}", sign, "0".repeat(pad), body);
    }
    let (pre, post) = match fl.align.unwrap_or(Align::Right) {
        Align::Left => (0, pad),
        Align::Right => (pad, 0),
        Align::Center => (pad / 2, (pad + 1) / 2),
    };
    let f: String = std::iter::repeat(fl.fill).take(pre).collect();
    let g: String = std::iter::repeat(fl.fill).take(post).collect();
    format!("{}{}{}{}", f, sign, body, g)
}

#[cfg(test)]
mod tests {
    use super::*;

    fn fl(plus: bool, zero: bool, width: Option<usize>, fill: char, align: Option<Align>) -> Flags {
        Flags { plus, zero, width, fill, align }
    }

    #[test]
    fn agrees_with_std_integers() {
        // the model is validated against std's own integer formatting
        assert_eq!(pad_model(true, "42", fl(false, false, Some(6), ' ', None)), format!("{:6}", 42));
        assert_eq!(pad_model(true, "42", fl(true, false, Some(6), ' ', None)), format!("{:+6}", 42));
        assert_eq!(pad_model(false, "42", fl(false, true, Some(6), ' ', None)), format!("{:06}", -42));
        assert_eq!(pad_model(false, "42", fl(true, true, Some(6), '*', Some(Align::Left))), format!("{:*<+06}", -42));
        assert_eq!(pad_model(true, "42", fl(false, false, Some(7), '*', Some(Align::Center))), format!("{:*^7}", 42));
        assert_eq!(pad_model(false, "42", fl(false, false, Some(7), '#', Some(Align::Left))), format!("{:#<7}", -42));
        assert_eq!(pad_model(true, "42", fl(true, false, Some(2), '#', Some(Align::Left))), format!("{:#<+2}", 42));
        assert_eq!(pad_model(true, "42", fl(true, false, None, '#', Some(Align::Left))), format!("{:#<+}", 42));
    }
}
