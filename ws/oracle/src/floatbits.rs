//! Exact decoding of IEEE-754 bit patterns, without any float arithmetic.

use crate::dec::Dec;
use num_bigint::{BigInt, BigUint, Sign};

#[derive(Clone, Debug, PartialEq, Eq)]
pub enum FloatClass {
    Nan,
    Inf { negative: bool },
    /// value = (-1)^negative * mant * 2^exp2
    Finite { negative: bool, mant: u64, exp2: i32, subnormal: bool },
}

pub fn decode_f64(bits: u64) -> FloatClass {
    let negative = bits >> 63 == 1;
    let e = ((bits >> 52) & 0x7ff) as i32;
    let f = bits & ((1u64 << 52) - 1);
    if e == 0x7ff {
        return if f == 0 { FloatClass::Inf { negative } } else { FloatClass::Nan };
    }
    if e == 0 {
        FloatClass::Finite { negative, mant: f, exp2: -1074, subnormal: f != 0 }
    } else {
        FloatClass::Finite { negative, mant: f | (1u64 << 52), exp2: e - 1075, subnormal: false }
    }
}

pub fn decode_f32(bits: u32) -> FloatClass {
    let negative = bits >> 31 == 1;
    let e = ((bits >> 23) & 0xff) as i32;
    let f = (bits & ((1u32 << 23) - 1)) as u64;
    if e == 0xff {
        return if f == 0 { FloatClass::Inf { negative } } else { FloatClass::Nan };
    }
    if e == 0 {
        FloatClass::Finite { negative, mant: f, exp2: -149, subnormal: f != 0 }
    } else {
        FloatClass::Finite { negative, mant: f | (1u64 << 23), exp2: e - 150, subnormal: false }
    }
}

/// exact decimal value of mant * 2^exp2
pub fn exact_dec(negative: bool, mant: u64, exp2: i32) -> Dec {
    let sign = if mant == 0 {
        Sign::NoSign
    } else if negative {
        Sign::Minus
    } else {
        Sign::Plus
    };
    if exp2 >= 0 {
        let v = BigUint::from(mant) << (exp2 as usize);
        Dec::new(BigInt::from_biguint(sign, v), 0)
    } else {
        let k = (-exp2) as u32;
        let v = BigUint::from(mant) * BigUint::from(5u8).pow(k);
        Dec::new(BigInt::from_biguint(sign, v), k as i128)
    }
}

pub fn dec_of_f64_bits(bits: u64) -> Option<Dec> {
    match decode_f64(bits) {
        FloatClass::Finite { negative, mant, exp2, .. } => Some(exact_dec(negative, mant, exp2)),
        _ => None,
    }
}

pub fn dec_of_f32_bits(bits: u32) -> Option<Dec> {
    match decode_f32(bits) {
        FloatClass::Finite { negative, mant, exp2, .. } => Some(exact_dec(negative, mant, exp2)),
        _ => None,
    }
}

#[cfg(test)]
mod tests {
    use super::*;

    #[test]
    fn decode() {
        assert!(dec_of_f64_bits(1.0f64.to_bits()).unwrap().eq_val(&Dec::from_str_int("1", 0)));
        assert!(dec_of_f64_bits(0.5f64.to_bits()).unwrap().eq_val(&Dec::from_str_int("5", 1)));
        assert!(dec_of_f64_bits((-0.1f64).to_bits())
            .unwrap()
            .eq_val(&Dec::from_str_int("-1000000000000000055511151231257827021181583404541015625", 55)));
        assert!(dec_of_f32_bits(0.1f32.to_bits()).unwrap().eq_val(&Dec::from_str_int("100000001490116119384765625", 27)));
        assert!(dec_of_f64_bits(0).unwrap().is_zero());
        assert!(dec_of_f64_bits(1u64 << 63).unwrap().is_zero());
        assert_eq!(decode_f64(f64::NAN.to_bits()), FloatClass::Nan);
        assert_eq!(decode_f64(f64::NEG_INFINITY.to_bits()), FloatClass::Inf { negative: true });
        // smallest subnormal = 2^-1074
        let d = dec_of_f64_bits(1).unwrap();
        assert_eq!(d.scale, 1074);
        assert!(dec_of_f64_bits(f64::MAX.to_bits()).unwrap().int.to_string().starts_with("17976931348623157"));
    }
}
