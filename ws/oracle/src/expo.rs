//! placeholder, filled in below
