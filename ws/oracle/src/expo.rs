//! Rigorous enclosure of e^x by outward-rounded interval arithmetic on big
//! integers: argument halving x -> x/2^k, Taylor sum with explicit remainder
//! bound, k interval squarings, reciprocal for negative arguments.

use crate::dec::{ndigits, pow10i, Dec};
use num_bigint::BigInt;
use num_integer::Integer;
use num_traits::{One, Signed, Zero};
use std::cmp::Ordering;

/// working fractional digits of the fixed-point Taylor stage and mantissa length
/// of the floating interval afterwards
pub const WORK_DIGITS: u64 = 170;

/// value in [lo * 10^exp, hi * 10^exp], 0 < lo <= hi
#[derive(Clone, Debug)]
pub struct Interval {
    pub lo: BigInt,
    pub hi: BigInt,
    pub exp: i128,
    /// working digits this enclosure is kept at
    pub work: u64,
}

fn floor_div(a: &BigInt, b: &BigInt) -> BigInt {
    a.div_floor(b)
}

fn ceil_div(a: &BigInt, b: &BigInt) -> BigInt {
    let (q, r) = a.div_mod_floor(b);
    if r.is_zero() {
        q
    } else {
        q + 1
    }
}

impl Interval {
    fn renormalize(mut self) -> Interval {
        let d = ndigits(&self.hi);
        if d > self.work + 10 {
            let cut = d - self.work;
            let p = pow10i(cut);
            self.lo = floor_div(&self.lo, &p);
            self.hi = ceil_div(&self.hi, &p);
            self.exp += cut as i128;
        }
        self
    }

    fn square(&self) -> Interval {
        Interval { lo: &self.lo * &self.lo, hi: &self.hi * &self.hi, exp: self.exp * 2, work: self.work }.renormalize()
    }

    fn mul(&self, o: &Interval) -> Interval {
        Interval { lo: &self.lo * &o.lo, hi: &self.hi * &o.hi, exp: self.exp + o.exp, work: self.work.min(o.work) }.renormalize()
    }

    fn recip(&self) -> Interval {
        // 1 / [lo, hi] 10^exp  =  [10^K / hi, 10^K / lo] * 10^(-K - exp)
        let k = 2 * self.work + 20;
        let one = pow10i(k);
        Interval { lo: floor_div(&one, &self.hi), hi: ceil_div(&one, &self.lo), exp: -(k as i128) - self.exp, work: self.work }.renormalize()
    }

    pub fn lo_dec(&self) -> Dec {
        Dec::new(self.lo.clone(), -self.exp)
    }
    pub fn hi_dec(&self) -> Dec {
        Dec::new(self.hi.clone(), -self.exp)
    }

    /// upper bound of (hi - lo) / lo, as a power of ten exponent (relative width <= 10^that)
    pub fn rel_width_exp10(&self) -> i64 {
        let w = &self.hi - &self.lo;
        if w.is_zero() {
            return i64::MIN / 2;
        }
        ndigits(&w) as i64 - ndigits(&self.lo) as i64 + 1
    }

    pub fn contains(&self, d: &Dec) -> bool {
        self.lo_dec().cmp_val(d) != Ordering::Greater && self.hi_dec().cmp_val(d) != Ordering::Less
    }
}

/// enclosure of e^y for 0 <= y given as the fixed-point interval [y_lo, y_hi] * 10^-F, y_hi < 10^F / 128
fn exp_small_nonneg(y_lo: &BigInt, y_hi: &BigInt, f: u64) -> Interval {
    let unit = pow10i(f);
    assert!(!y_lo.is_negative() && y_lo <= y_hi && (y_hi * 128) < unit, "oracle: reduced argument out of range");
    // lower bound: partial sums of the series at y_lo with every term rounded down
    // upper bound: partial sums at y_hi with every term rounded up, plus a remainder bound
    let mut sum_lo = unit.clone();
    let mut sum_hi = unit.clone();
    let mut term_lo = unit.clone();
    let mut term_hi = unit.clone();
    let mut n = 0u32;
    loop {
        n += 1;
        let nb = BigInt::from(n) * &unit;
        term_lo = floor_div(&(&term_lo * y_lo), &nb);
        term_hi = ceil_div(&(&term_hi * y_hi), &nb);
        sum_lo += &term_lo;
        sum_hi += &term_hi;
        if term_hi <= BigInt::one() || n > 2000 {
            break;
        }
    }
    assert!(n <= 2000, "oracle: Taylor series did not converge");
    // remainder after the last added term T_n (upper bound term_hi): sum_{j>n} y^j/j! <= T_n * (y/(n+1)) / (1 - y/(n+2)) <= T_n
    // since y < 1/128; rounding of that bound is covered by adding 2 more units
    sum_hi += &term_hi + 2;
    Interval { lo: sum_lo, hi: sum_hi, exp: -(f as i128), work: f }
}

/// Rigorous enclosure of e^x.  |x| must be below 10^6 (far beyond the checked domain).
pub fn exp_interval(x: &Dec) -> Interval {
    exp_interval_at(x, WORK_DIGITS)
}

/// the same with `f` working digits (the enclosure is about 10^-(f-10) wide, relatively)
pub fn exp_interval_at(x: &Dec, f: u64) -> Interval {
    if x.is_zero() {
        return Interval { lo: BigInt::one(), hi: BigInt::one(), exp: 0, work: f };
    }
    let ax = x.abs();
    assert!(ax.adjusted() <= 6, "oracle: |x| too large for exp_interval");
    // k halvings so that |x| / 2^k < 1/128
    let adj = ax.adjusted(); // |x| < 10^adj
    let mut k: u32 = 0;
    if adj > -3 {
        // 10^adj / 2^k < 2^-7  <=  k >= 7 + adj * log2(10)
        k = (7.0 + (adj as f64) * 3.3219280949 + 1.0).ceil().max(0.0) as u32;
    }
    // y = |x| / 2^k as a fixed-point interval with f fractional digits:
    // |x| = n * 10^-s  =>  y * 10^f = n * 10^(f - s) / 2^k
    let n = ax.int.clone();
    let s = ax.scale;
    let den = BigInt::one() << (k as usize);
    let (y_lo, y_hi) = if (f as i128) >= s {
        let num = n * pow10i((f as i128 - s) as u64);
        (floor_div(&num, &den), ceil_div(&num, &den))
    } else {
        let d2 = &den * pow10i((s - f as i128) as u64);
        (floor_div(&n, &d2), ceil_div(&n, &d2))
    };
    let mut iv = exp_small_nonneg(&y_lo, &y_hi, f);
    for _ in 0..k {
        iv = iv.square();
    }
    if x.signum() < 0 {
        iv = iv.recip();
    }
    iv
}

/// oracle self-test on one pair of arguments: e^a * e^-a contains 1, and the
/// enclosures of e^(a+b) and e^a * e^b intersect and are both narrow
pub fn self_test(a: &Dec, b: &Dec) -> Result<(), String> {
    let ea = exp_interval(a);
    let ena = exp_interval(&a.neg());
    let prod = ea.mul(&ena);
    if !prod.contains(&Dec::one()) {
        return Err(format!("e^a * e^-a does not contain 1 for a = {}", a.show()));
    }
    let eb = exp_interval(b);
    let eab = exp_interval(&a.add(b));
    let p = ea.mul(&eb);
    // intersection non-empty
    if p.lo_dec().cmp_val(&eab.hi_dec()) == Ordering::Greater || eab.lo_dec().cmp_val(&p.hi_dec()) == Ordering::Greater {
        return Err(format!("e^(a+b) and e^a*e^b are disjoint for a = {}, b = {}", a.show(), b.show()));
    }
    for (name, iv) in [("e^a", &ea), ("e^b", &eb), ("e^(a+b)", &eab)] {
        if iv.rel_width_exp10() > -140 {
            return Err(format!("{} enclosure too wide: 10^{}", name, iv.rel_width_exp10()));
        }
    }
    Ok(())
}

#[derive(Clone, Debug, PartialEq)]
pub enum ExpVerdict {
    /// |r - e^x| <= units * unit for certain
    Within,
    /// |r - e^x| > units * unit for certain; err ~ error in units (rough)
    Outside { approx_units: f64 },
    /// the enclosure straddles the bound
    Undecided,
}

/// Decide |r - e^x| <= `units` units of the `digits`-th significant digit of the result r
/// ("the last of its significant digits": the unit is the result's own; when r is not
/// positive the decade of e^x is used, and the case is Outside anyway).
/// The enclosure is computed with digits + 70 working digits, so Undecided needs an error
/// within about 10^-60 units of the bound.
pub fn judge(x: &Dec, r: &Dec, digits: u64, units: u64) -> (ExpVerdict, Interval) {
    let iv = exp_interval_at(x, (digits + 70).max(WORK_DIGITS));
    let (lo, hi) = (iv.lo_dec(), iv.hi_dec());
    let adj_true = hi.adjusted();
    let adj = if r.is_zero() || r.signum() < 0 { adj_true } else { r.adjusted() };
    let tol = Dec::new(BigInt::from(units), -(adj - digits as i128)); // units * 10^(adj - digits)
    // certainly within: hi - tol <= r <= lo + tol
    let within = r.cmp_val(&lo.add(&tol)) != Ordering::Greater && r.cmp_val(&hi.sub(&tol)) != Ordering::Less;
    if within {
        return (ExpVerdict::Within, iv);
    }
    // certainly outside: r > hi + tol or r < lo - tol
    let outside = r.cmp_val(&hi.add(&tol)) == Ordering::Greater || r.cmp_val(&lo.sub(&tol)) == Ordering::Less;
    if outside {
        let unit = Dec::new(BigInt::one(), -(adj - digits as i128));
        let err = if r.cmp_val(&hi) == Ordering::Greater { r.sub(&hi) } else { lo.sub(r) };
        return (ExpVerdict::Outside { approx_units: crate::quot::approx_ratio(&err.abs(), &unit) }, iv);
    }
    (ExpVerdict::Undecided, iv)
}

#[cfg(test)]
mod tests {
    use super::*;

    fn d(s: &str, sc: i128) -> Dec {
        Dec::from_str_int(s, sc)
    }

    #[test]
    fn e_itself() {
        let iv = exp_interval(&d("1", 0));
        // e = 2.71828182845904523536028747135266249775724709369995957496696762772407663035354759457138217852516642742746...
        let e100 = d("2718281828459045235360287471352662497757247093699959574966967627724076630353547594571382178525166427", 99);
        let e100_up = d("2718281828459045235360287471352662497757247093699959574966967627724076630353547594571382178525166428", 99);
        assert!(iv.lo_dec().cmp_val(&e100) == Ordering::Greater);
        assert!(iv.hi_dec().cmp_val(&e100_up) == Ordering::Less);
        assert!(iv.rel_width_exp10() < -150);
    }

    #[test]
    fn identities() {
        let cases = [("1", 0i128), ("-1", 0), ("25", 1), ("-24", 0), ("1000", 0), ("-1000", 0), ("123456789", 12), ("-5", 40), ("999999", 3), ("230258509299", 11)];
        for (i, (a, sa)) in cases.iter().enumerate() {
            let (b, sb) = cases[(i + 3) % cases.len()];
            self_test(&d(a, *sa), &d(b, sb)).unwrap();
        }
    }

    #[test]
    fn judge_works() {
        let x = d("1", 0);
        let good = d("2718281828459045235360287471352662497757247093699959574966967627724076630353547594571382178525166427", 99);
        let off2 = d("2718281828459045235360287471352662497757247093699959574966967627724076630353547594571382178525166430", 99);
        assert_eq!(judge(&x, &good, 100, 1).0, ExpVerdict::Within);
        assert!(matches!(judge(&x, &off2, 100, 1).0, ExpVerdict::Outside { .. }));
        assert_eq!(judge(&x, &off2, 100, 3).0, ExpVerdict::Within);
    }
}
