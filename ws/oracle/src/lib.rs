//! bdoracle — the trusted base of the verification machinery.
//!
//! Exact reference models for decimal arithmetic, written only on top of
//! `num-bigint` primitives (`+ - * / %`, `pow`, `to_string`, `nth_root` with
//! verification).  This crate deliberately does NOT depend on `bigdecimal`,
//! so no change to the code under test can change an oracle.

pub mod dec;
pub mod round;
pub mod root;
pub mod quot;
pub mod expo;
pub mod floatbits;
pub mod numeral;
pub mod padmodel;

pub use dec::Dec;
pub use round::Mode;
