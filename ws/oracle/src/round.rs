//! Rounding oracle: quotient/remainder by 10^k, then an integer comparison of
//! twice the remainder with 10^k.  Seven modes, sign aware.

use crate::dec::{ndigits, pow10i, Dec};
use num_bigint::BigInt;
use num_integer::Integer;
use num_traits::{Signed, Zero};
use std::cmp::Ordering;

#[derive(Clone, Copy, Debug, PartialEq, Eq, Hash)]
pub enum Mode {
    Up,
    Down,
    Ceiling,
    Floor,
    HalfUp,
    HalfDown,
    HalfEven,
}

pub const ALL_MODES: [Mode; 7] =
    [Mode::Up, Mode::Down, Mode::Ceiling, Mode::Floor, Mode::HalfUp, Mode::HalfDown, Mode::HalfEven];

impl Mode {
    pub fn name(self) -> &'static str {
        match self {
            Mode::Up => "Up",
            Mode::Down => "Down",
            Mode::Ceiling => "Ceiling",
            Mode::Floor => "Floor",
            Mode::HalfUp => "HalfUp",
            Mode::HalfDown => "HalfDown",
            Mode::HalfEven => "HalfEven",
        }
    }

    pub fn from_name(s: &str) -> Option<Mode> {
        ALL_MODES.iter().copied().find(|m| m.name() == s)
    }

    pub fn index(self) -> usize {
        ALL_MODES.iter().position(|m| *m == self).unwrap()
    }

    /// the mode m' with round_m(-x) = -round_m'(x)
    pub fn mirrored(self) -> Mode {
        match self {
            Mode::Ceiling => Mode::Floor,
            Mode::Floor => Mode::Ceiling,
            m => m,
        }
    }
}

/// Position of the discarded part relative to one half of the unit being
/// rounded to.
#[derive(Clone, Copy, Debug, PartialEq, Eq)]
pub enum Tail {
    Zero,
    BelowHalf,
    Half,
    AboveHalf,
}

/// Decide whether the magnitude is incremented.
/// `negative`: sign of the value being rounded; `q_odd`: parity of the kept magnitude.
pub fn increments(mode: Mode, negative: bool, q_odd: bool, tail: Tail) -> bool {
    if tail == Tail::Zero {
        return false;
    }
    match mode {
        Mode::Up => true,
        Mode::Down => false,
        Mode::Ceiling => !negative,
        Mode::Floor => negative,
        Mode::HalfUp => matches!(tail, Tail::Half | Tail::AboveHalf),
        Mode::HalfDown => matches!(tail, Tail::AboveHalf),
        Mode::HalfEven => match tail {
            Tail::AboveHalf => true,
            Tail::Half => q_odd,
            _ => false,
        },
    }
}

/// Round `int * 10^-scale` to `new_scale`; returns the integer at `new_scale`.
pub fn round_to_scale(int: &BigInt, scale: i128, new_scale: i128, mode: Mode) -> BigInt {
    if int.is_zero() {
        return BigInt::zero();
    }
    if new_scale >= scale {
        let gap = (new_scale - scale) as u64;
        return if gap == 0 { int.clone() } else { int * pow10i(gap) };
    }
    let k = scale - new_scale; // digits to discard, > 0
    let negative = int.is_negative();
    let mag = int.abs();
    let d = ndigits(&mag) as i128;
    let (q, tail) = if k > d + 1 {
        // everything is discarded and the value is below a tenth of the unit
        (BigInt::zero(), Tail::BelowHalf)
    } else {
        let p = pow10i(k as u64);
        let (q, r) = mag.div_rem(&p);
        let tail = if r.is_zero() {
            Tail::Zero
        } else {
            match (&r * 2u32).cmp(&p) {
                Ordering::Less => Tail::BelowHalf,
                Ordering::Equal => Tail::Half,
                Ordering::Greater => Tail::AboveHalf,
            }
        };
        (q, tail)
    };
    let q = if increments(mode, negative, q.is_odd(), tail) { q + 1 } else { q };
    if negative {
        -q
    } else {
        q
    }
}

/// Round to p significant digits (p >= 1).  If the input has fewer digits it is
/// padded with zeros to exactly p digits.  After an all-nines carry the
/// returned integer has p+1 digits (value is what matters).
pub fn round_to_prec(int: &BigInt, scale: i128, p: u64, mode: Mode) -> Dec {
    assert!(p >= 1);
    if int.is_zero() {
        // zero has one digit; padding a zero is still zero
        return Dec::new(BigInt::zero(), scale);
    }
    let d = ndigits(int) as i128;
    let new_scale = scale + (p as i128 - d);
    Dec::new(round_to_scale(int, scale, new_scale, mode), new_scale)
}

/// The digit-pair primitive's specification (sign: -1, 0, +1).
/// `lhs`: digit being rounded, `rhs`: first discarded digit, `trailing_zeros`:
/// everything after `rhs` is zero.  Returns lhs or lhs+1 (may be 10).
/// For sign 0 with Floor/Ceiling the specification is open (a zero has no
/// direction); callers must only assert membership in {lhs, lhs+1} there.
pub fn round_pair_spec(mode: Mode, sign: i32, lhs: u8, rhs: u8, trailing_zeros: bool) -> u8 {
    let tail = if rhs == 0 && trailing_zeros {
        Tail::Zero
    } else if rhs < 5 {
        Tail::BelowHalf
    } else if rhs == 5 && trailing_zeros {
        Tail::Half
    } else {
        Tail::AboveHalf
    };
    if increments(mode, sign < 0, lhs % 2 == 1, tail) {
        lhs + 1
    } else {
        lhs
    }
}

#[cfg(test)]
mod tests {
    use super::*;

    fn r(n: i64, s: i128, ns: i128, m: Mode) -> i64 {
        use num_traits::ToPrimitive;
        round_to_scale(&BigInt::from(n), s, ns, m).to_i64().unwrap()
    }

    #[test]
    fn doc_table() {
        // values from the RoundingMode documentation: 5.5 2.5 1.6 1.1 -1.1 -1.6 -2.5 -5.5
        let ins = [55, 25, 16, 11, -11, -16, -25, -55];
        let table: [(Mode, [i64; 8]); 7] = [
            (Mode::Up, [6, 3, 2, 2, -2, -2, -3, -6]),
            (Mode::Down, [5, 2, 1, 1, -1, -1, -2, -5]),
            (Mode::Ceiling, [6, 3, 2, 2, -1, -1, -2, -5]),
            (Mode::Floor, [5, 2, 1, 1, -2, -2, -3, -6]),
            (Mode::HalfUp, [6, 3, 2, 1, -1, -2, -3, -6]),
            (Mode::HalfDown, [5, 2, 2, 1, -1, -2, -2, -5]),
            (Mode::HalfEven, [6, 2, 2, 1, -1, -2, -2, -6]),
        ];
        for (m, outs) in table.iter() {
            for (i, o) in ins.iter().zip(outs.iter()) {
                assert_eq!(r(*i, 1, 0, *m), *o, "{:?} {}", m, i);
            }
        }
    }

    #[test]
    fn far_left() {
        assert_eq!(r(999, 0, -10, Mode::Up), 1);
        assert_eq!(r(999, 0, -10, Mode::HalfUp), 0);
        assert_eq!(r(-999, 0, -10, Mode::Floor), -1);
        assert_eq!(r(999, 0, -3, Mode::HalfUp), 1);
        assert_eq!(r(499, 0, -3, Mode::HalfUp), 0);
        assert_eq!(r(500, 0, -3, Mode::HalfEven), 0);
        assert_eq!(r(500, 0, -3, Mode::HalfDown), 0);
        assert_eq!(r(501, 0, -3, Mode::HalfDown), 1);
        assert_eq!(r(5, 0, -1, Mode::HalfEven), 0);
        assert_eq!(r(15, 0, -1, Mode::HalfEven), 2);
    }

    #[test]
    fn prec() {
        let x = round_to_prec(&BigInt::from(-12941675), 5, 2, Mode::HalfUp);
        assert_eq!(x, Dec::new(BigInt::from(-13), -1));
        let y = round_to_prec(&BigInt::from(-99999999), -27, 2, Mode::Up);
        assert!(y.eq_val(&Dec::new(BigInt::from(-1), -35)));
        let z = round_to_prec(&BigInt::from(12), 1, 5, Mode::Up);
        assert_eq!(z, Dec::new(BigInt::from(12000), 4));
    }
}
