//! Residual-based checks for quotients and reciprocals: no division result is
//! trusted; everything is decided by exact multiplication and comparison.

use crate::dec::{ndigits, ndigits_u, pow10, Dec};
use num_bigint::{BigInt, BigUint};
use num_integer::Integer;
use num_traits::{One, Signed, Zero};
use std::cmp::Ordering;

/// strip all factors f from n, returning (rest, count)
fn strip(mut n: BigUint, f: u32) -> (BigUint, u64) {
    let f = BigUint::from(f);
    let mut c = 0;
    loop {
        let (q, r) = n.div_rem(&f);
        if !r.is_zero() {
            return (n, c);
        }
        n = q;
        c += 1;
    }
}

/// If num/den (positive integers) has a terminating decimal expansion, return
/// the number of significant digits of the exact quotient.
pub fn terminating_digits(num: &BigUint, den: &BigUint) -> Option<u64> {
    assert!(!den.is_zero());
    if num.is_zero() {
        return Some(1);
    }
    let g = num.gcd(den);
    let n = num / &g;
    let d = den / &g;
    let (d, i) = strip(d, 2);
    let (d, j) = strip(d, 5);
    if !d.is_one() {
        return None;
    }
    // n / (2^i 5^j) = n * 2^(m-i) * 5^(m-j) / 10^m
    let m = i.max(j);
    let mut v = n;
    if m > i {
        v <<= (m - i) as usize;
    }
    if m > j {
        v *= BigUint::from(5u8).pow((m - j) as u32);
    }
    // strip trailing zeros (only possible from n's own factors of ten)
    let s = v.to_str_radix(10);
    Some(s.trim_end_matches('0').len().max(1) as u64)
}

#[derive(Clone, Debug)]
pub struct QuotInfo {
    /// exact quotient terminates within `prec` digits (so q had to be exact)
    pub must_be_exact: bool,
    /// Some(n): quotient terminates after n significant digits
    pub terminating: Option<u64>,
    /// residual was exactly half a unit (a tie)
    pub tie: bool,
}

/// C08 oracle.  a, b != 0 the operands, q the returned quotient, prec the
/// default precision.
pub fn quotient_check(a: &Dec, b: &Dec, q: &Dec, prec: u64) -> Result<QuotInfo, String> {
    assert!(!b.is_zero());
    if a.is_zero() {
        return if q.is_zero() {
            Ok(QuotInfo { must_be_exact: true, terminating: Some(1), tie: false })
        } else {
            Err("zero-numerator: quotient is not zero".into())
        };
    }
    let term = terminating_digits(a.int.magnitude(), b.int.magnitude());
    let residual = a.sub(&q.mul(b)); // a - q b
    let want_sign = a.signum() * b.signum();
    if let Some(n) = term {
        if n <= prec {
            return if residual.is_zero() {
                Ok(QuotInfo { must_be_exact: true, terminating: term, tie: false })
            } else {
                Err(format!("inexact: exact quotient has {} <= {} digits but a - q*b = {}", n, prec, residual.show()))
            };
        }
    }
    if q.signum() != want_sign {
        return Err(format!("sign: quotient sign {} expected {}", q.signum(), want_sign));
    }
    let qd = ndigits(&q.int);
    if qd < prec {
        return Err(format!("short: quotient has {} digits, fewer than {}", qd, prec));
    }
    // 2 |a - q b|  vs  |b| * 10^-q.scale
    let lhs = Dec::new(residual.int.abs() * 2, residual.scale);
    let rhs = Dec::new(b.int.abs(), b.scale + q.scale);
    match lhs.cmp_val(&rhs) {
        Ordering::Less => Ok(QuotInfo { must_be_exact: false, terminating: term, tie: false }),
        Ordering::Greater => Err(format!(
            "far: |a - q*b| = {} exceeds half a unit in the last place of q (|b|*ulp = {})",
            residual.abs().show(),
            rhs.show()
        )),
        Ordering::Equal => {
            // tie: must have been rounded away from zero, i.e. |q| |b| > |a|
            let qb = q.mul(b).abs();
            if qb.cmp_val(&a.abs()) == Ordering::Greater {
                Ok(QuotInfo { must_be_exact: false, terminating: term, tie: true })
            } else {
                Err("tie: exact tie rounded toward zero".into())
            }
        }
    }
}

#[derive(Clone, Debug)]
pub struct RecipInfo {
    /// Some(n): 1/x terminates after n significant digits
    pub terminating: Option<u64>,
    pub must_be_exact: bool,
    /// |r - 1/x| expressed in units of the p-th digit, as a rough float (reporting only)
    pub err_units: f64,
}

/// digits of the exact reciprocal if it terminates
pub fn recip_terminating_digits(x: &BigUint) -> Option<u64> {
    terminating_digits(&BigUint::one(), x)
}

/// C12 oracle: sign, exactness when 1/x has <= p digits, |r - 1/x| < one unit of
/// the p-th significant digit of 1/x.
/// Errors are returned as (kind, detail, err_units).
pub fn reciprocal_check(x: &Dec, r: &Dec, p: u64) -> Result<RecipInfo, (String, String, f64)> {
    assert!(!x.is_zero());
    let term = recip_terminating_digits(x.int.magnitude());
    if r.signum() != x.signum() {
        return Err(("sign".into(), format!("reciprocal sign {} for x sign {}", r.signum(), x.signum()), f64::INFINITY));
    }
    // e: |x| in [10^(e-1), 10^e)
    let e = x.adjusted();
    // 1/|x| in (10^-e, 10^(1-e)]  -> adjusted exponent 1-e (also when x is a power of ten: value 10^(1-e) has adjusted 2-e, exact case)
    let x_is_pow10 = x.canonical().int.magnitude().is_one();
    let adj_true = if x_is_pow10 { 2 - e } else { 1 - e };
    // the unit is that of the p-th digit of 1/x itself: a correctly or faithfully rounded result that
    // lands on the next power of ten is still less than this unit away, so no widening is needed
    let adj = adj_true;
    // unit = 10^(adj - p)
    // residual: 1 - r x
    let residual = Dec::one().sub(&r.mul(x));
    // |1 - r x| < |x| * unit   <=>  |r - 1/x| < unit
    let lhs = residual.abs();
    let rhs = Dec::new(x.int.abs(), x.scale - (adj - p as i128));
    let err_units = approx_ratio(&lhs, &rhs);
    if let Some(n) = term {
        if n <= p {
            return if residual.is_zero() {
                Ok(RecipInfo { terminating: term, must_be_exact: true, err_units: 0.0 })
            } else {
                Err((
                    "inexact".into(),
                    format!("1/x has {} <= {} digits but 1 - r*x = {}", n, p, residual.show()),
                    err_units,
                ))
            };
        }
    }
    if lhs.cmp_val(&rhs) == Ordering::Less {
        Ok(RecipInfo { terminating: term, must_be_exact: false, err_units })
    } else {
        Err(("far".into(), format!("|r - 1/x| = {:.3} units of digit {}", err_units, p), err_units))
    }
}

/// rough a/b for reporting (both positive); not used for any decision
pub fn approx_ratio(a: &Dec, b: &Dec) -> f64 {
    if a.is_zero() {
        return 0.0;
    }
    if b.is_zero() {
        return f64::INFINITY;
    }
    fn lead(d: &Dec) -> (f64, i128) {
        let s = d.int.magnitude().to_str_radix(10);
        let take = s.len().min(17);
        let m: f64 = s[..take].parse().unwrap();
        (m, (s.len() - take) as i128 - d.scale)
    }
    let (ma, ea) = lead(a);
    let (mb, eb) = lead(b);
    let de = ea - eb;
    if de > 300 {
        f64::INFINITY
    } else if de < -300 {
        0.0
    } else {
        ma / mb * 10f64.powi(de as i32)
    }
}

/// number of decimal digits of an unsigned integer (re-export for harness use)
pub fn digits_of(n: &BigUint) -> u64 {
    ndigits_u(n)
}

/// 10^k helper re-export
pub fn ten_pow(k: u64) -> BigUint {
    pow10(k)
}

/// |v| as BigInt helper
pub fn abs_int(v: &BigInt) -> BigInt {
    v.abs()
}

#[cfg(test)]
mod tests {
    use super::*;

    fn d(s: &str, sc: i128) -> Dec {
        Dec::from_str_int(s, sc)
    }

    #[test]
    fn terminating() {
        let u = |s: &str| s.parse::<BigUint>().unwrap();
        assert_eq!(terminating_digits(&u("1"), &u("8")), Some(3)); // 0.125
        assert_eq!(terminating_digits(&u("1"), &u("3")), None);
        assert_eq!(terminating_digits(&u("6"), &u("3")), Some(1));
        assert_eq!(terminating_digits(&u("100"), &u("8")), Some(3)); // 12.5
        assert_eq!(terminating_digits(&u("1000"), &u("8")), Some(3)); // 125
        assert_eq!(terminating_digits(&u("7"), &u("1000")), Some(1));
        assert_eq!(terminating_digits(&u("1"), &u("1024")), Some(7)); // 9765625
    }

    #[test]
    fn quotient() {
        // 1/3 at prec 5: 0.33333 ok, 0.33334 not
        assert!(quotient_check(&d("1", 0), &d("3", 0), &d("33333", 5), 5).is_ok());
        assert!(quotient_check(&d("1", 0), &d("3", 0), &d("33334", 5), 5).is_err());
        assert!(quotient_check(&d("2", 0), &d("3", 0), &d("66667", 5), 5).is_ok());
        assert!(quotient_check(&d("2", 0), &d("3", 0), &d("66666", 5), 5).is_err());
        assert!(quotient_check(&d("2", 0), &d("3", 0), &d("6667", 4), 5).is_err()); // short
        assert!(quotient_check(&d("-2", 0), &d("3", 0), &d("-66667", 5), 5).is_ok());
        assert!(quotient_check(&d("-2", 0), &d("3", 0), &d("66667", 5), 5).is_err());
        // exact
        assert!(quotient_check(&d("1", 0), &d("8", 0), &d("125", 3), 5).is_ok());
        assert!(quotient_check(&d("1", 0), &d("8", 0), &d("1250", 4), 5).is_ok());
        assert!(quotient_check(&d("1", 0), &d("8", 0), &d("13", 2), 5).is_err());
        // terminating beyond precision: 1/1024 = 0.0009765625 (7 digits) at prec 3 -> 0.000977
        assert!(quotient_check(&d("1", 0), &d("1024", 0), &d("977", 6), 3).is_ok());
        assert!(quotient_check(&d("1", 0), &d("1024", 0), &d("976", 6), 3).is_err());
        // tie: 1/8 = 0.125 at prec 2 -> 0.13 (away from zero), not 0.12
        assert!(quotient_check(&d("1", 0), &d("8", 0), &d("13", 2), 2).unwrap().tie);
        assert!(quotient_check(&d("1", 0), &d("8", 0), &d("12", 2), 2).is_err());
        assert!(quotient_check(&d("-1", 0), &d("8", 0), &d("-13", 2), 2).unwrap().tie);
        assert!(quotient_check(&d("-1", 0), &d("8", 0), &d("-12", 2), 2).is_err());
    }

    #[test]
    fn reciprocal() {
        assert!(reciprocal_check(&d("3", 0), &d("333", 3), 3).is_ok());
        assert!(reciprocal_check(&d("3", 0), &d("334", 3), 3).is_ok());
        assert!(reciprocal_check(&d("3", 0), &d("335", 3), 3).is_err());
        assert!(reciprocal_check(&d("3", 0), &d("332", 3), 3).is_err());
        assert!(reciprocal_check(&d("-3", 0), &d("333", 3), 3).is_err());
        assert!(reciprocal_check(&d("8", 0), &d("125", 3), 3).is_ok());
        assert!(reciprocal_check(&d("8", 0), &d("13", 2), 3).is_err());
        assert!(reciprocal_check(&d("8", 0), &d("13", 2), 2).is_ok());
        assert!(reciprocal_check(&d("1", -4), &d("1", 4), 1).is_ok());
        assert!(reciprocal_check(&d("1", -4), &d("9", 5), 1).is_err());
        // 1/25000000000e5 = 4e-16 exactly; 3e-16 must be rejected at p=1
        assert!(reciprocal_check(&d("25000000000", -5), &d("3", 16), 1).is_err());
        assert!(reciprocal_check(&d("25000000000", -5), &d("4", 16), 1).is_ok());
    }
}
