//! Correctly rounded k-th roots (k = 2, 3) decided by integer inequalities.

use crate::dec::{ndigits_u, pow10, Dec};
use crate::round::{increments, Mode, Tail};
use num_bigint::{BigInt, BigUint, Sign};
use num_integer::Integer;
use num_traits::{One, Zero};
use std::cmp::Ordering;

fn ceil_div(a: i128, b: i128) -> i128 {
    // b > 0
    let q = a.div_euclid(b);
    if a.rem_euclid(b) != 0 {
        q + 1
    } else {
        q
    }
}

#[derive(Clone, Debug)]
pub struct RootInfo {
    /// the correctly rounded root (signed)
    pub value: Dec,
    /// root is exactly representable in p digits
    pub exact: bool,
    /// position of the discarded part
    pub tail: Tail,
    /// floor of |root| * 10^t
    pub floor_int: BigUint,
    /// scale of floor_int
    pub t: i128,
}

/// Floor integer k-th root, verified: s^k <= m < (s+1)^k.
pub fn iroot(m: &BigUint, k: u32) -> BigUint {
    let s = m.nth_root(k);
    let lo = s.pow(k);
    let hi = (&s + 1u32).pow(k);
    assert!(&lo <= m && m < &hi, "oracle self-test: nth_root({}) unverified", k);
    s
}

/// Root of x = n * 10^-scale (n > 0), rounded to p significant digits under `mode`.
/// If `negative`, the result is the root of -x (cube roots): the mode is applied
/// to the signed value.
pub fn root_rounded(n: &BigUint, scale: i128, k: u32, p: u64, mode: Mode, negative: bool) -> RootInfo {
    assert!(!n.is_zero() && (k == 2 || k == 3) && p >= 1);
    let d = ndigits_u(n) as i128;
    let e = d - scale; // x in [10^(e-1), 10^e)
    let er = ceil_div(e, k as i128); // root in [10^(er-1), 10^er)
    let t = p as i128 - er; // root * 10^t has exactly p integer digits
    let shift = (k as i128) * t - scale;
    // x * 10^(k t) = n * 10^shift
    let (m, den): (BigUint, BigUint) = if shift >= 0 {
        (n * pow10(shift as u64), BigUint::one())
    } else {
        let den = pow10((-shift) as u64);
        (n / &den, den)
    };
    let s0 = iroot(&m, k);
    debug_assert_eq!(ndigits_u(&s0), p, "oracle: floor root does not have p digits");
    assert_eq!(ndigits_u(&s0), p, "oracle self-test: floor root digit count");
    // numerator of x*10^(kt) over `den`
    let num: BigUint = if shift >= 0 { m.clone() } else { n.clone() };
    let exact = s0.pow(k) * &den == num;
    let tail = if exact {
        Tail::Zero
    } else {
        // root vs s0 + 1/2  <=>  num * 2^k  vs  (2 s0 + 1)^k * den
        let lhs = &num << (k as usize);
        let rhs = (&s0 * 2u32 + 1u32).pow(k) * &den;
        match lhs.cmp(&rhs) {
            Ordering::Less => Tail::BelowHalf,
            Ordering::Equal => Tail::Half,
            Ordering::Greater => Tail::AboveHalf,
        }
    };
    let q = if increments(mode, negative, s0.is_odd(), tail) { &s0 + 1u32 } else { s0.clone() };
    let sign = if negative { Sign::Minus } else { Sign::Plus };
    RootInfo {
        value: Dec::new(BigInt::from_biguint(sign, q), t),
        exact,
        tail,
        floor_int: s0,
        t,
    }
}

#[cfg(test)]
mod tests {
    use super::*;

    fn root(n: &str, scale: i128, k: u32, p: u64, m: Mode) -> String {
        let n: BigUint = n.parse().unwrap();
        let r = root_rounded(&n, scale, k, p, m, false);
        r.value.canonical().show()
    }

    #[test]
    fn sqrt_small() {
        assert_eq!(root("2", 0, 2, 5, Mode::HalfEven), "14142e-4");
        assert_eq!(root("2", 0, 2, 5, Mode::Up), "14143e-4");
        assert_eq!(root("4", 0, 2, 5, Mode::Up), "2e0");
        assert_eq!(root("225", 2, 2, 1, Mode::HalfEven), "2e0");
        assert_eq!(root("225", 2, 2, 1, Mode::HalfDown), "1e0");
        assert_eq!(root("225", 2, 2, 1, Mode::HalfUp), "2e0");
        assert_eq!(root("225", 2, 2, 2, Mode::Down), "15e-1");
        assert_eq!(root("1", 2, 2, 3, Mode::Down), "1e-1");
        assert_eq!(root("1", 3, 2, 3, Mode::Down), "316e-4");
        assert_eq!(root("1", -3, 2, 3, Mode::Down), "316e-1");
        // 1 + 10^-42 at p=5: Up must give 1.0001
        let n = format!("1{}1", "0".repeat(41));
        assert_eq!(root(&n, 42, 2, 5, Mode::Up), "10001e-4");
        assert_eq!(root(&n, 42, 2, 5, Mode::Down), "1e0");
    }

    #[test]
    fn cbrt_small() {
        assert_eq!(root("27", 0, 3, 4, Mode::Up), "3e0");
        assert_eq!(root("2", 0, 3, 6, Mode::Down), "125992e-5");
        assert_eq!(root("2", 0, 3, 6, Mode::Up), "125993e-5");
        assert_eq!(root("1", 1, 3, 3, Mode::Down), "464e-3");
        assert_eq!(root("1", -1, 3, 3, Mode::Down), "215e-2");
        let r = root_rounded(&"8".parse().unwrap(), 0, 3, 3, Mode::Floor, true);
        assert!(r.exact);
        assert_eq!(r.value.canonical().show(), "-2e0");
        let r = root_rounded(&"9".parse().unwrap(), 0, 3, 3, Mode::Floor, true);
        assert_eq!(r.value.canonical().show(), "-209e-2");
        let r = root_rounded(&"9".parse().unwrap(), 0, 3, 3, Mode::Ceiling, true);
        assert_eq!(r.value.canonical().show(), "-208e-2");
    }
}
