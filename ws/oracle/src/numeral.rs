//! Reference recogniser / evaluator for decimal numerals (C05) and for JSON
//! numbers (C17).  Hand-written scanners; digits are accumulated by
//! `BigInt::parse_bytes` on a pure-digit slice.

use num_bigint::BigInt;
use num_traits::ToPrimitive;

/// Evaluate a decimal numeral: `sign? body exp?`
///   body: characters from [0-9 _ .], at most one '.', at least one digit, and the
///         first character that is not the point must be a digit
///   exp:  [eE] sign? [0-9]+
/// Returns (unscaled integer, scale) with scale = fraction digits - exponent,
/// or None if the text is not a numeral or the scale leaves the i64 range.
pub fn parse_reference(s: &[u8]) -> Option<(BigInt, i64)> {
    // split at the first e/E
    let (base, exp) = match s.iter().position(|&c| c == b'e' || c == b'E') {
        None => (s, None),
        Some(i) => (&s[..i], Some(&s[i + 1..])),
    };
    let exponent: BigInt = match exp {
        None => BigInt::from(0),
        Some(e) => {
            let (neg, ds) = match e.first() {
                Some(b'+') => (false, &e[1..]),
                Some(b'-') => (true, &e[1..]),
                _ => (false, e),
            };
            if ds.is_empty() || !ds.iter().all(|c| c.is_ascii_digit()) {
                return None;
            }
            let v = BigInt::parse_bytes(ds, 10)?;
            if neg {
                -v
            } else {
                v
            }
        }
    };
    let (neg, body) = match base.first() {
        Some(b'+') => (false, &base[1..]),
        Some(b'-') => (true, &base[1..]),
        _ => (false, base),
    };
    let mut digits: Vec<u8> = Vec::with_capacity(body.len());
    let mut points = 0usize;
    let mut frac_digits: u64 = 0;
    let mut first_nonpoint_seen = false;
    for &c in body {
        match c {
            b'0'..=b'9' => {
                first_nonpoint_seen = true;
                digits.push(c);
                if points == 1 {
                    frac_digits += 1;
                }
            }
            b'_' => {
                if !first_nonpoint_seen {
                    return None; // separator before the first digit
                }
            }
            b'.' => {
                points += 1;
                if points > 1 {
                    return None;
                }
            }
            _ => return None,
        }
    }
    if digits.is_empty() {
        return None;
    }
    let scale = (BigInt::from(frac_digits) - exponent).to_i64()?;
    let v = BigInt::parse_bytes(&digits, 10)?;
    Some((if neg { -v } else { v }, scale))
}

/// JSON number grammar (RFC 8259): -? (0 | [1-9][0-9]*) (\.[0-9]+)? ([eE][+-]?[0-9]+)?
pub fn is_json_number(s: &[u8]) -> bool {
    let mut i = 0;
    let n = s.len();
    if i < n && s[i] == b'-' {
        i += 1;
    }
    if i >= n {
        return false;
    }
    if s[i] == b'0' {
        i += 1;
    } else if s[i].is_ascii_digit() {
        while i < n && s[i].is_ascii_digit() {
            i += 1;
        }
    } else {
        return false;
    }
    if i < n && s[i] == b'.' {
        i += 1;
        let st = i;
        while i < n && s[i].is_ascii_digit() {
            i += 1;
        }
        if i == st {
            return false;
        }
    }
    if i < n && (s[i] == b'e' || s[i] == b'E') {
        i += 1;
        if i < n && (s[i] == b'+' || s[i] == b'-') {
            i += 1;
        }
        let st = i;
        while i < n && s[i].is_ascii_digit() {
            i += 1;
        }
        if i == st {
            return false;
        }
    }
    i == n
}

#[cfg(test)]
mod tests {
    use super::*;

    fn p(s: &str) -> Option<(String, i64)> {
        parse_reference(s.as_bytes()).map(|(i, s)| (i.to_string(), s))
    }

    #[test]
    fn accepts() {
        assert_eq!(p("1"), Some(("1".into(), 0)));
        assert_eq!(p("-1.50"), Some(("-150".into(), 2)));
        assert_eq!(p("+.5"), Some(("5".into(), 1)));
        assert_eq!(p("5."), Some(("5".into(), 0)));
        assert_eq!(p("1_000.0_1e-3"), Some(("100001".into(), 5)));
        assert_eq!(p("1._5"), Some(("15".into(), 1)));
        assert_eq!(p("5._"), Some(("5".into(), 0)));
        assert_eq!(p("1e+0005"), Some(("1".into(), -5)));
        assert_eq!(p("1E9223372036854775808"), Some(("1".into(), i64::MIN)));
        assert_eq!(p("1e-9223372036854775807"), Some(("1".into(), i64::MAX)));
        assert_eq!(p("0.1e-9223372036854775806"), Some(("1".into(), i64::MAX)));
        assert_eq!(p("-0"), Some(("0".into(), 0)));
    }

    #[test]
    fn rejects() {
        for s in [
            "", ".", "+", "-", "e5", "1e", "1e+", "_1", "+_1", "._5", ".+5", ".-5", "1.2.3", "1 ", " 1", "1e5.5",
            "1e_5", "--1", "+-1", "-+1", "1x", "0x10", "1e9223372036854775809", "1e-9223372036854775808",
            "0.1e-9223372036854775807", "1e99999999999999999999999999999999999999999", "١", "1\u{0}",
        ] {
            assert_eq!(p(s), None, "{:?}", s);
        }
    }

    #[test]
    fn json() {
        for s in ["0", "-0", "1", "10", "1.5", "-1.5e10", "1E-5", "0.0", "1e+5"] {
            assert!(is_json_number(s.as_bytes()), "{}", s);
        }
        for s in ["", "-", "01", "00", "1.", ".5", "+1", "1e", "1e+", "1.e5", "0x1", "1 ", "--1", "1_0"] {
            assert!(!is_json_number(s.as_bytes()), "{}", s);
        }
    }
}
