#!/bin/bash
# Bounded libFuzzer campaigns for one property (thorough tier).
#   fuzz/campaign.sh <Cnn> <partial-out.json>
# exit 0: no violation (or no fuzz target for this property); 1: violation (VIOLATION line printed by
# the target, replay file written); 2: infrastructure problem.
set -u
HERE=$(cd "$(dirname "$0")" && pwd)
ROOT=$(dirname "$HERE")
WORK=$ROOT/.work
prop=$1
out=$2
case "$prop" in
    C05) target=fz_parse; maxlen=96; runs=3000000;;
    C17) target=fz_json; maxlen=128; runs=1000000;;
    C19|C01) target=fz_program; maxlen=1024; runs=40000;;
    C02|C03) target=fz_cmp; maxlen=256; runs=1000000;;
    C04|C16) target=fz_fmt; maxlen=256; runs=600000;;
    C06|C07|C08|C09|C10|C11|C12) target=fz_num; maxlen=256; runs=500000;;
    *) exit 0;;
esac
RUNS=${VERIF_FUZZ_RUNS:-$runs}
JOBS=${VERIF_FUZZ_JOBS:-6}
SEED=${VERIF_SEED:-0}
export CARGO_NET_OFFLINE=true
export CARGO_TARGET_DIR=$WORK/target
export RUSTFLAGS="--cfg bigdecimal_verif"
log=$WORK/fuzz-build-$target.log
if ! (cd "$ROOT/ws/harness" && cargo +nightly fuzz build --sanitizer none --fuzz-dir "$HERE" "$target" >"$log" 2>&1); then
    echo "fuzz: build of $target failed; see $log" >&2
    tail -n 30 "$log" >&2
    exit 2
fi
bin=$WORK/target/x86_64-unknown-linux-gnu/release/$target
[ -x "$bin" ] || { echo "fuzz: $bin missing" >&2; exit 2; }
t0=$(date +%s)
pids=()
for j in $(seq 1 "$JOBS"); do
    cdir=$WORK/fuzz-corpus-$target-$j
    rm -rf "$cdir"; mkdir -p "$cdir"
    # odd jobs start from the seed corpus, even jobs from an empty one
    if [ $((j % 2)) -eq 1 ] && [ -d "$HERE/seeds/$target" ]; then cp "$HERE/seeds/$target"/* "$cdir"/ 2>/dev/null; fi
    adir=$WORK/fuzz-artifacts-$target-$j/
    rm -rf "$adir"; mkdir -p "$adir"
    dict=""
    [ -f "$HERE/seeds/$target.dict" ] && dict="-dict=$HERE/seeds/$target.dict"
    ( "$bin" "$cdir" -runs="$RUNS" -seed=$((SEED * 100 + j + 1)) -len_control=0 -max_len=$maxlen $dict \
        -artifact_prefix="$adir" -print_final_stats=1 -max_total_time=${VERIF_FUZZ_SECONDS:-900} -timeout=300 -rss_limit_mb=4096 >"$WORK/fuzz-$target-$j.log" 2>&1 ) &
    pids+=($!)
done
rc=0
for p in "${pids[@]}"; do
    wait "$p" || rc=1
done
t1=$(date +%s)
total=0; corpus=0; viol=0
for j in $(seq 1 "$JOBS"); do
    n=$(grep -m1 "stat::number_of_executed_units" "$WORK/fuzz-$target-$j.log" | awk '{print $2}')
    total=$((total + ${n:-0}))
    c=$(ls "$WORK/fuzz-corpus-$target-$j" 2>/dev/null | wc -l)
    corpus=$((corpus + c))
    if grep -q "^VIOLATION" "$WORK/fuzz-$target-$j.log"; then
        viol=$((viol + 1))
        grep -A1 "^VIOLATION" "$WORK/fuzz-$target-$j.log" | head -4
    elif ls "$WORK/fuzz-artifacts-$target-$j/" 2>/dev/null | grep -qE "^(crash|timeout|oom|leak)-"; then
        # a crash without our VIOLATION line: timeout / OOM / abort outside the oracle -> infrastructure
        echo "fuzz: $target job $j left an artifact without a VIOLATION line (timeout/oom?); see $WORK/fuzz-$target-$j.log" >&2
        rc=2
    fi
done
samples=$(ls "$WORK/fuzz-corpus-$target-1" 2>/dev/null | head -3 | while read -r f; do head -c 60 "$WORK/fuzz-corpus-$target-1/$f" | xxd -p | tr -d '\n'; echo; done | python3 -c "import sys,json; print(json.dumps([l.strip() for l in sys.stdin if l.strip()]))")
python3 - "$out" "$prop" "$target" "$total" "$corpus" "$viol" "$((t1 - t0))" "$JOBS" "$RUNS" "$samples" <<'PY'
import json, sys
out, prop, target, total, corpus, viol, secs, jobs, runs, samples = sys.argv[1:11]
stage = {
 "stage": f"fuzz:{target}", "kind": "bytes", "mode": "fuzz", "flavour": "fuzz(debug-assertions on, no sanitizer)",
 "evaluations": int(total), "nontrivial": int(corpus), "distinct_nontrivial": int(corpus), "exhaustive": False,
 "inconclusive": 0, "known_finding_hits": 0, "labels": {}, "wall_s": float(secs),
 "samples": [{"corpus_input_hex": s} for s in json.loads(samples)],
 "note": f"libFuzzer, {jobs} independent processes x -runs={runs}, -len_control=0; odd jobs start from fuzz/seeds/{target}, even jobs from an empty corpus; distinct_nontrivial = inputs retained in the corpora (new coverage); oracle inside the target",
}
json.dump({"property": prop, "tier": "thorough", "seed": 0, "flavour": "fuzz", "stages": [stage],
           "violations": [{"stage": f"fuzz:{target}"}] * int(viol), "known_hits": [], "notes": [], "wall_s": float(secs)}, open(out, "w"), indent=1)
PY
[ "$viol" -gt 0 ] && exit 1
[ $rc -eq 2 ] && exit 2
exit 0
