#![no_main]
//! C02 / C03: two decimals built from 32-bit words, signs, scales and a gap; oracle = exact order,
//! and for value-equal pairs the hash stream comparison.
use arbitrary::Unstructured;
use bdverif::engine::{fuzz_check, install_quiet_panic_hook};
use bdverif::gen::{boundary_words, D};
use bdverif::props::c02::{check_pair, CmpPair};
use bdverif::props::c03::{check_twin, Twin};
use bigdecimal::num_bigint::BigUint;
use libfuzzer_sys::fuzz_target;

fn words(u: &mut Unstructured, bw: &[u32]) -> arbitrary::Result<BigUint> {
    let n = u.int_in_range(1..=6)?;
    let mut w = Vec::with_capacity(n);
    for _ in 0..n {
        w.push(if u.ratio(2, 3)? { bw[u.int_in_range(0..=bw.len() - 1)?] } else { u.arbitrary()? });
    }
    Ok(BigUint::from_slice(&w))
}

fuzz_target!(|data: &[u8]| {
    static INIT: std::sync::Once = std::sync::Once::new();
    INIT.call_once(install_quiet_panic_hook);
    let bw = boundary_words();
    let mut u = Unstructured::new(data);
    let build = |u: &mut Unstructured| -> arbitrary::Result<(CmpPair, bool)> {
        let x = words(u, &bw)?;
        let neg: bool = u.arbitrary()?;
        let base: i64 = u.int_in_range(-50..=50)?;
        let gap: u32 = u.int_in_range(0..=70)?;
        let mode: u8 = u.int_in_range(0..=4)?;
        let sgn = if neg && x != BigUint::from(0u8) { "-" } else { "" };
        let a = D::new(format!("{}{}", sgn, x), base);
        let (b, twin) = match mode {
            // twin / +-1 neighbour at a finer scale
            0 | 1 | 2 => {
                let mut y = &x * BigUint::from(10u8).pow(gap);
                if mode == 1 {
                    y += 1u8;
                }
                if mode == 2 && y > BigUint::from(0u8) {
                    y -= 1u8;
                }
                let s = if neg && y != BigUint::from(0u8) { "-" } else { "" };
                (D::new(format!("{}{}", s, y), base + gap as i64), mode == 0)
            }
            _ => {
                let y = words(u, &bw)?;
                let s = if u.arbitrary()? && y != BigUint::from(0u8) { "-" } else { "" };
                (D::new(format!("{}{}", s, y), base + gap as i64 - 35), false)
            }
        };
        let swap: bool = u.arbitrary()?;
        Ok((if swap { CmpPair { a: b, b: a } } else { CmpPair { a, b } }, twin))
    };
    if let Ok((pair, twin)) = build(&mut u) {
        fuzz_check("C02", "pair", &pair, check_pair);
        if twin {
            let t = Twin { a: pair.a.clone(), b: pair.b.clone(), minus_zero: false };
            fuzz_check("C03", "twin", &t, check_twin);
        }
    }
});
