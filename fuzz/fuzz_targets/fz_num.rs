#![no_main]
//! C06..C12: one or two decimals, a precision, a mode and an operation selector decoded from the byte
//! stream; each operation is judged by the same oracle-backed check function as the proptest stages.
use arbitrary::Unstructured;
use bdverif::engine::{fuzz_check, install_quiet_panic_hook};
use bdverif::gen::D;
use bdverif::props::{c06, c07, c08, c09, c10, c11, c12};
use libfuzzer_sys::fuzz_target;

fn digits(u: &mut Unstructured, max: usize) -> arbitrary::Result<String> {
    let n = 1 + u.int_in_range(0..=max - 1)?;
    let fam: u8 = u.int_in_range(0..=5)?;
    let mut s = String::with_capacity(n + 1);
    if u.ratio(1, 2)? {
        s.push('-');
    }
    for i in 0..n {
        let d: u8 = match fam {
            0 => 9,
            1 if i > 0 => 0,
            2 if i > n / 2 => {
                if i == n / 2 + 1 {
                    5
                } else {
                    0
                }
            }
            _ => u.int_in_range(0..=9)?,
        };
        s.push((b'0' + if i == 0 && d == 0 { 1 } else { d }) as char);
    }
    Ok(s)
}

fuzz_target!(|data: &[u8]| {
    static INIT: std::sync::Once = std::sync::Once::new();
    INIT.call_once(install_quiet_panic_hook);
    let mut u = Unstructured::new(data);
    let mut run = |u: &mut Unstructured| -> arbitrary::Result<()> {
        let sel: u8 = u.int_in_range(0..=6)?;
        let a = D::new(digits(u, 60)?, u.int_in_range(-60..=80)?);
        let mode: u8 = u.int_in_range(0..=6)?;
        let p: u64 = if u.ratio(1, 4)? { 100 } else { u.int_in_range(1..=40)? };
        match sel {
            0 => {
                let new_scale = a.scale - u.int_in_range(-5..=70)?;
                fuzz_check("C06", "round", &c06::RoundCase { d: a, new_scale, mode }, c06::check_round);
            }
            1 => fuzz_check("C07", "prec", &c07::PrecCase { d: a, p, mode }, c07::check_prec),
            2 => {
                let b = D::new(digits(u, 40)?, u.int_in_range(-40..=40)?);
                fuzz_check("C08", "pair", &c08::Pair { a, b }, c08::check_pair);
            }
            3 => {
                let b = D::new(digits(u, 40)?, u.int_in_range(-40..=40)?);
                fuzz_check("C09", "pair", &c09::Pair { a, b }, c09::check_pair);
            }
            4 => fuzz_check("C10", "sqrt", &c10::RootCase { d: a, p, mode }, c10::check_sqrt),
            5 => fuzz_check("C11", "cbrt", &c10::RootCase { d: a, p, mode }, c11::check_cbrt),
            _ => {
                if !a.is_zero() {
                    fuzz_check("C12", "inv", &c12::InvCase { d: a, p, mode }, c12::check_inv);
                }
            }
        }
        Ok(())
    };
    let _ = run(&mut u);
});
