#![no_main]
//! C17: any text read as a JSON number, as a numeric string and through the json_num adapters.
use bdverif::engine::{fuzz_check, install_quiet_panic_hook};
use bdverif::props::c17::{check_text, JsonText};
use libfuzzer_sys::fuzz_target;

fuzz_target!(|data: &[u8]| {
    static INIT: std::sync::Once = std::sync::Once::new();
    INIT.call_once(install_quiet_panic_hook);
    if let Ok(s) = std::str::from_utf8(data) {
        if s.len() <= 4096 {
            let case = JsonText { text: s.to_string() };
            fuzz_check("C17", "text", &case, check_text);
        }
    }
});
