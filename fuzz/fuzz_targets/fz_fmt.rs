#![no_main]
//! C04 / C16: a decimal plus a format selector; oracles = parse-back round trip, rounding oracle,
//! pad_integral model.
use arbitrary::Unstructured;
use bdverif::engine::{fuzz_check, install_quiet_panic_hook};
use bdverif::fmt_table::Kind;
use bdverif::gen::D;
use bdverif::props::c04::{check_val, Val};
use bdverif::props::c16::{check_fmt, FmtCase};
use libfuzzer_sys::fuzz_target;

fuzz_target!(|data: &[u8]| {
    static INIT: std::sync::Once = std::sync::Once::new();
    INIT.call_once(install_quiet_panic_hook);
    let mut u = Unstructured::new(data);
    let build = |u: &mut Unstructured| -> arbitrary::Result<FmtCase> {
        let n = 1 + u.int_in_range(0..=59usize)?;
        let mut s = String::new();
        if u.ratio(1, 2)? {
            s.push('-');
        }
        let fam: u8 = u.int_in_range(0..=3)?;
        for i in 0..n {
            let d: u8 = match fam {
                0 => 9,
                1 if i > n / 2 => 0,
                _ => u.int_in_range(0..=9)?,
            };
            s.push((b'0' + if i == 0 && d == 0 { 1 } else { d }) as char);
        }
        if u.ratio(1, 20)? {
            s = "0".into();
        }
        let scale: i64 = if u.ratio(1, 8)? { u.int_in_range(-1100..=400)? } else { u.int_in_range(-30..=70)? };
        let kind = [Kind::Disp, Kind::Lower, Kind::Upper][u.int_in_range(0..=2usize)?];
        let prec = if u.ratio(1, 5)? { None } else if u.ratio(1, 10)? { Some(u.int_in_range(980..=1020u32)?) } else { Some(u.int_in_range(0..=70u32)?) };
        Ok(FmtCase { d: D::new(s, scale), kind, prec, fill_align: u.int_in_range(0..=18)?, plus: u.arbitrary()?, zero: u.arbitrary()?, width: u.int_in_range(0..=60)? })
    };
    if let Ok(c) = build(&mut u) {
        fuzz_check("C16", "fmt", &c, check_fmt);
        fuzz_check("C04", "val", &Val { d: c.d.clone() }, check_val);
    }
});
