#![no_main]
//! C19 (and C01): operation programs decoded from the byte stream; oracle = exact model interpreter.
use arbitrary::Unstructured;
use bdverif::engine::{fuzz_check, install_quiet_panic_hook};
use bdverif::gen::D;
use bdverif::props::c19::{check_program, Op, Program};
use libfuzzer_sys::fuzz_target;

fn digits(u: &mut Unstructured, max: usize) -> arbitrary::Result<String> {
    let n = 1 + u.int_in_range(0..=max - 1)?;
    let mut s = String::with_capacity(n + 1);
    if u.ratio(1, 2)? {
        s.push('-');
    }
    for i in 0..n {
        let d: u8 = u.int_in_range(0..=9)?;
        s.push((b'0' + if i == 0 && n > 1 && d == 0 { 1 } else { d }) as char);
    }
    if s == "-0" {
        s = "0".into();
    }
    Ok(s)
}

fn decimal(u: &mut Unstructured) -> arbitrary::Result<D> {
    let kind: u8 = u.int_in_range(0..=5)?;
    let scale: i64 = u.int_in_range(-40..=60)?;
    Ok(match kind {
        0 => D::new("0", scale),
        1 => D::new(format!("1{}", "0".repeat(scale.unsigned_abs() as usize % 30)), (scale.unsigned_abs() % 30) as i64),
        2 => D::new("1", -(scale.abs())),
        _ => D::new(digits(u, 30)?, scale),
    })
}

fn op(u: &mut Unstructured) -> arbitrary::Result<Op> {
    Ok(match u.int_in_range(0..=16u8)? {
        0..=4 => Op::Bin { op: u.int_in_range(0..=6)?, overload: u.arbitrary()?, operand: u.arbitrary()?, rhs: u.int_in_range(0..=2)?, swap: u.arbitrary()? },
        5 => Op::Int { op: u.int_in_range(0..=3)?, overload: u.arbitrary()?, n: digits(u, 25)? },
        6 => {
            let ty: u8 = u.int_in_range(0..=9)?;
            // small values fit every type
            let val: u8 = u.int_in_range(0..=120)?;
            Op::Prim { op: u.int_in_range(0..=3)?, overload: u.arbitrary()?, ty, val: val.to_string() }
        }
        7 => Op::Neg { form: u.int_in_range(0..=2)? },
        8 => Op::Abs { form: u.int_in_range(0..=2)? },
        9 => Op::Double,
        10 => Op::Half,
        11 => Op::Square,
        12 => Op::Extend { by: u.int_in_range(0..=80)?, form: u.int_in_range(0..=2)? },
        13 => {
            if u.ratio(1, 2)? {
                Op::Normalize
            } else {
                Op::CloneRef
            }
        }
        14 => Op::Sum { mask: u.arbitrary()?, borrowed: u.arbitrary()? },
        15 => Op::Cube,
        _ => Op::CloneInto { dest: u.arbitrary()? },
    })
}

fuzz_target!(|data: &[u8]| {
    static INIT: std::sync::Once = std::sync::Once::new();
    INIT.call_once(install_quiet_panic_hook);
    let mut u = Unstructured::new(data);
    let build = |u: &mut Unstructured| -> arbitrary::Result<Program> {
        let mut pool = Vec::new();
        for _ in 0..5 {
            pool.push(decimal(u)?);
        }
        // value-equal twin of the first entry
        let a = pool[0].clone();
        let tz: usize = u.int_in_range(0..=20)?;
        pool.push(if a.is_zero() { D::new("0", a.scale + tz as i64) } else { D::new(format!("{}{}", a.int, "0".repeat(tz)), a.scale + tz as i64) });
        let nops = u.int_in_range(1..=40)?;
        let mut ops = Vec::new();
        for _ in 0..nops {
            ops.push(op(u)?);
        }
        Ok(Program { pool, start: u.arbitrary()?, ops })
    };
    if let Ok(p) = build(&mut u) {
        if std::env::var("FZ_DUMP").is_ok() {
            eprintln!("{:?}", p);
        }
        fuzz_check("C19", "program", &p, check_program);
    }
});
