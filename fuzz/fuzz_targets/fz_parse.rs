#![no_main]
//! C05: any byte string; oracle = reference numeral recogniser/evaluator (inside check_text).
use bdverif::engine::{fuzz_check, install_quiet_panic_hook};
use bdverif::props::c05::{check_text, Text};
use libfuzzer_sys::fuzz_target;

fuzz_target!(|data: &[u8]| {
    static INIT: std::sync::Once = std::sync::Once::new();
    INIT.call_once(install_quiet_panic_hook);
    // first byte selects the extra radix to try
    let (radix, bytes) = match data.split_first() {
        Some((r, rest)) => ((*r % 41) as u32, rest),
        None => (10, data),
    };
    let case = Text { bytes: bytes.to_vec(), radix };
    fuzz_check("C05", "text", &case, check_text);
});
