#!/bin/bash
# run every delivered seeded change against the check of its own property (quick tier); log to .work/seeds.log
cd /verif
LOG=.work/seeds.log
: > $LOG
for id in "$@"; do
    for k in 1 2; do
        p=/tmp/seed-out/$id/patch$k.diff
        [ -f "$p" ] || continue
        mkdir -p .work/seedpatch/$id; cp "$p" .work/seedpatch/$id/patch$k.diff
        tools/try_patch.sh .work/seedpatch/$id/patch$k.diff $id >> $LOG 2>&1
    done
done
echo DONE >> $LOG
