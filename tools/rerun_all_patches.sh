#!/bin/bash
# Regression of the sensitivity results: every seeded change (seeded/<Cnn>/<k>/patch.diff) and every hand mutant
# (mutants/*.patch) against the quick tier of the check(s) expected to catch it, in a fully isolated copy
# (/tmp/eval: scratch worktree of /repo at HEAD + snapshot of /verif taken once at start).
#   tools/rerun_all_patches.sh            -> log in .work/rerun-patches.log
set -u
ROOT=$(cd "$(dirname "$0")/.." && pwd)
E=/tmp/eval
LOG=$ROOT/.work/rerun-patches.log
: > "$LOG"
mkdir -p $E
if [ ! -d $E/repo ]; then git -C /repo worktree add -q --detach $E/repo HEAD || exit 2; fi
git -C $E/repo checkout -q --detach "$(git -C /repo rev-parse HEAD)" && git -C $E/repo checkout -- . || exit 2
rsync -a --delete --exclude .work --exclude .git --exclude replays --exclude evidence "$ROOT/" $E/verif/
mkdir -p $E/verif/evidence
sed -i "s|path = \"/repo\"|path = \"$E/repo\"|" $E/verif/ws/harness/Cargo.toml $E/verif/cfgprobe/Cargo.toml $E/verif/fuzz/Cargo.toml
run_one() { # label patch props...
    local label=$1 patch=$2; shift 2
    git -C $E/repo checkout -- .
    if ! git -C $E/repo apply "$patch" 2>/dev/null; then echo "$label DOES-NOT-APPLY" >> "$LOG"; return; fi
    for prop in "$@"; do
        out=$($E/verif/check "$prop" quick 2>&1); rc=$?
        sig=$(echo "$out" | grep -m1 -A1 "^VIOLATION" | tail -1 | sed 's/^ *//' | cut -c1-200)
        echo "$label $prop rc=$rc $sig" >> "$LOG"
    done
    git -C $E/repo checkout -- .
}
for d in "$ROOT"/seeded/C*/*/; do
    prop=$(basename "$(dirname "$d")")
    [ -f "$d/patch.diff" ] && run_one "seeded/$prop/$(basename "$d")" "$d/patch.diff" "$prop"
done
python3 - <<'PY' > $ROOT/.work/mutant-plan.txt
import json
for m in json.load(open('/verif/mutants/index.json')):
    print(m['mutant'], ' '.join(m['expected_to_be_caught_by']))
PY
while read -r name props; do
    run_one "mutants/$name" "$ROOT/mutants/$name.patch" $props
done < $ROOT/.work/mutant-plan.txt
echo DONE >> "$LOG"
