#!/bin/bash
# run every hand-written mutant against the checks expected to catch it; log to .work/mutants.log
cd /verif
python3 - <<'PY' > .work/mutant-plan.txt
import json
for m in json.load(open('/verif/mutants/index.json')):
    print(m['mutant'], ' '.join(m['expected_to_be_caught_by']))
PY
: > .work/mutants.log
while read -r name props; do
    SUITE=1 tools/try_patch.sh mutants/$name.patch $props >> .work/mutants.log 2>&1
done < .work/mutant-plan.txt
echo DONE >> .work/mutants.log
