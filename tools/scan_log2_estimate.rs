// exhaustive scan: is the library's new estimate a lower bound of floor(s*log2(10)) for every s < 2^33,
// and how often was the old estimate too large?
fn main() {
    let digits = "332192809488736234787031942948939017586483139302458061205475639581593477660862521585";
    let prefix: u128 = digits[..38].parse().unwrap(); // 3.3219... * 10^37
    let ten37: u128 = 10u128.pow(37);
    let ip = prefix / ten37; // 3
    let mut rem = prefix % ten37;
    let mut l: u128 = ip << 90;
    for bit in (0..90).rev() {
        rem <<= 1;
        if rem >= ten37 { rem -= ten37; l |= 1u128 << bit; }
    }
    let lo = l;       // <= true L
    let hi = l + 2;   // >= true L
    let log2_10: f64 = std::f64::consts::LOG2_10;
    let mut old_bad = 0u64; let mut new_bad = 0u64; let mut first_old = 0u64; let mut undecided = 0u64;
    let n: u64 = std::env::args().nth(1).and_then(|s| s.parse().ok()).unwrap_or(1u64 << 33);
    for s in 1..n {
        let f_lo = ((s as u128 * lo) >> 90) as u64;
        let f_hi = ((s as u128 * hi) >> 90) as u64;
        let old = (log2_10 * s as f64) as u64;
        let new = ((log2_10 * s as f64) * (1.0 - 4.0 * f64::EPSILON)) as u64;
        if f_lo != f_hi { undecided += 1; if new > f_lo { new_bad += 1; } continue; }
        if old > f_lo { old_bad += 1; if first_old == 0 { first_old = s; } }
        if new > f_lo { new_bad += 1; }
    }
    println!("scanned 1..{}: old estimate too large {} times (first at s = {}), new estimate too large {} times, undecided {}", n, old_bad, first_old, new_bad, undecided);
}
