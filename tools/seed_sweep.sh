#!/bin/bash
# run every quick check under several seeds; report any non-zero exit
# usage: tools/seed_sweep.sh <seed>...      (log: .work/seed-sweep.log)
cd /verif
for seed in "$@"; do
  for p in C01 C02 C03 C04 C05 C06 C07 C08 C09 C10 C11 C12 C13 C14 C15 C16 C17 C18 C19 C20; do
    VERIF_SEED=$seed ./check $p quick > .work/seedrun-$seed-$p.log 2>&1
    rc=$?
    echo "seed=$seed $p rc=$rc $(grep -m1 -A1 '^VIOLATION' .work/seedrun-$seed-$p.log | tail -1 | cut -c1-200)" >> .work/seed-sweep.log
  done
done
echo "SWEEP DONE $*" >> .work/seed-sweep.log
