#!/bin/bash
# evaluate one delivered seeded change: confirm it independently (scratch worktree) and run the property's quick check on it in an
# isolated, frozen copy.   SEEDSRC=/tmp/seedN-out EVAL_DIR=/tmp/evalN tools/eval_seed.sh <Cnn> <k>
set -u
id=$1; k=$2
SRC=${SEEDSRC:?}; E=${EVAL_DIR:?}
mkdir -p /verif/.work/seedeval
v=$(SEEDSRC=$SRC /verif/tools/verify_seed.sh $id $k 2>&1 | tail -1)
c=$(NO_SYNC=${NO_SYNC:-1} EVAL_DIR=$E /verif/tools/try_patch_iso.sh $SRC/$id/patch$k.diff $id 2>&1 | tee /verif/.work/seedeval/$id-$k.log | grep -m1 " rc=")
echo "VERIFY: $v | CHECK: $c"
