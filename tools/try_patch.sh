#!/bin/bash
# Apply a patch to /repo, run the given checks (quick tier), and ALWAYS restore /repo.
#   tools/try_patch.sh <patch.diff> <Cnn> [<Cnn>...]        (env TIER=quick|thorough, SUITE=1 to run the repo's tests too)
# prints one line per check:  <patch> <Cnn> rc=<0|1|2> [first VIOLATION sig]
set -u
ROOT=$(cd "$(dirname "$0")/.." && pwd)
patch=$(readlink -f "$1"); shift
tier=${TIER:-quick}
if [ -n "$(git -C /repo status --porcelain --untracked-files=no)" ]; then
    echo "try_patch: /repo has uncommitted changes, refusing" >&2
    exit 2
fi
restore() { git -C /repo checkout -- . ; }
trap restore EXIT
if ! git -C /repo apply "$patch"; then
    echo "try_patch: patch does not apply: $patch" >&2
    exit 2
fi
if [ "${SUITE:-0}" = 1 ]; then
    if (cd /repo && cargo test --workspace --no-fail-fast --offline 2>&1 | grep -E "^test result" | grep -qv " 0 failed"); then
        echo "$(basename "$(dirname "$patch")")/$(basename "$patch") SUITE-FAILS (not a valid seeded change)"
    else
        echo "$(basename "$(dirname "$patch")")/$(basename "$patch") suite-passes"
    fi
fi
for prop in "$@"; do
    out=$("$ROOT/check" "$prop" "$tier" 2>&1)
    rc=$?
    sig=$(echo "$out" | grep -m1 -A1 "^VIOLATION" | tail -1 | sed 's/^ *//' | cut -c1-220)
    echo "$(basename "$(dirname "$patch")")/$(basename "$patch") $prop rc=$rc $sig"
    if [ $rc -eq 2 ]; then echo "$out" | tail -5; fi
done
