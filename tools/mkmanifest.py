#!/usr/bin/env python3
"""Regenerate /verif/MANIFEST.json from the table below (keeps the file valid).
usage: tools/mkmanifest.py            (claims the properties listed in CLAIMED)
"""
import json, os, sys

ROOT = os.path.dirname(os.path.dirname(os.path.abspath(__file__)))

# property -> (technique, level text, level note, design section)
CHECKS = {
    "C01": ("property-based testing (proptest) + grid enumeration against an exact (BigInt, scale) model, every overload per case",
            "Exploration: every scale gap 0..45 and the 20/590-digit algorithm switches crossed with digit shapes and signs, plus seed-reproducible random operand tuples up to 5000 digits, each pushed through all ~100 overloads and compared by exact value with model arithmetic. Right level because the property is a universally quantified algebraic identity with a cheap exact oracle; the structured regions are constructed rather than hoped for.",
            "Trusts num-bigint integer arithmetic and BigDecimal::as_bigint_and_exponent as the observation point. Does not establish absence outside the explored cases.",
            "5 C01"),
}

NOT_YET = "check not built yet in this round (design exists in DESIGN.md section 5); no claim is made"

def main():
    props = [json.loads(l) for l in open(os.path.join(ROOT, "properties.jsonl"))]
    ids = [p["id"] for p in props]
    claimed = [i for i in ids if i in CHECKS]
    checks = []
    for i in claimed:
        tech, text, note, ref = CHECKS[i]
        checks.append({
            "property_id": i,
            "quick_cmd": f"./check {i} quick",
            "thorough_cmd": f"./check {i} thorough",
            "evidence_file": f"/verif/evidence/{i}.json",
            "replay_cmd_template": "./check replay {path}",
            "engine": "bdverif",
            "level_claimed": {"category": "exploration", "text": text, "design_ref": f"DESIGN.md section {ref}"},
            "level_note": note,
            "technique": tech,
        })
    na_reasons = {}
    na_file = os.path.join(ROOT, "tools", "not_applicable.json")
    if os.path.exists(na_file):
        na_reasons = json.load(open(na_file))
    manifest = {
        "version": 1,
        "setup_cmd": "./check build",
        "hooks": {
            "guard": "bigdecimal_verif",
            "enable": "RUSTFLAGS=\"--cfg bigdecimal_verif\" (set by ./check for every harness build; path dependency on /repo)",
            "baseline_off_cmd": "cd /repo && cargo test --workspace --no-fail-fast --offline",
            "source_commits": json.load(open(os.path.join(ROOT, "tools", "hook_commits.json"))) if os.path.exists(os.path.join(ROOT, "tools", "hook_commits.json")) else [],
            "add_only": True,
        },
        "engines": [
            {"name": "bdverif", "path": "ws/harness", "serves_properties": claimed,
             "kind_free_text": "Rust harness: proptest TestRunner per worker thread (fixed seeds from VERIF_SEED), exhaustive enumerators, exact oracle crate ws/oracle (no dependency on bigdecimal), replay files, known-finding table"},
            {"name": "fuzz", "path": "fuzz", "serves_properties": [i for i in claimed if i in ("C01", "C02", "C03", "C04", "C05", "C16", "C17", "C19")],
             "kind_free_text": "cargo-fuzz / libFuzzer targets with the semantic oracle inside the target (thorough tier only)"},
        ],
        "checks": checks,
        "not_applicable": [{"property_id": i, "reason": na_reasons.get(i, NOT_YET)} for i in ids if i not in CHECKS],
        "notes": "All checks: ./check <id> <tier>; exit 0 held / 1 VIOLATION line / 2 infrastructure (never a violation). Known findings: /verif/known-findings.txt (read-only at run time).",
    }
    json.dump(manifest, open(os.path.join(ROOT, "MANIFEST.json"), "w"), indent=1)
    print("claimed:", claimed)

if __name__ == "__main__":
    main()
