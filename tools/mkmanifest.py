#!/usr/bin/env python3
"""Regenerate /verif/MANIFEST.json from the table below (keeps the file valid).
usage: tools/mkmanifest.py            (claims the properties listed in CLAIMED)
"""
import json, os, sys

ROOT = os.path.dirname(os.path.dirname(os.path.abspath(__file__)))

# property -> (technique, level text, level note, design section)
CHECKS = {
    "C01": ("property-based testing (proptest) + grid enumeration against an exact (BigInt, scale) model, every overload per case",
            "Exploration: every scale gap 0..45 and the 20/590-digit algorithm switches crossed with digit shapes and signs, plus seed-reproducible random operand tuples up to 5000 digits, each pushed through all ~100 overloads and compared by exact value with model arithmetic; ones written 1.00, zeros carrying a scale and powers of ten appear on either side; release and debug-assertion builds. Right level because the property is a universally quantified algebraic identity with a cheap exact oracle; the structured regions are constructed rather than hoped for.",
            "Trusts num-bigint integer arithmetic and BigDecimal::as_bigint_and_exponent as the observation point. Does not establish absence outside the explored cases.",
            "5 C01"),
    "C02": ("exhaustive enumeration of word-boundary twins + proptest generation, differential against the exact order of rationals, release and debug-assertion builds",
            "Exploration with an exhaustively enumerated sub-scope: all 1- and 2-word operands from the 32-bit carry/overflow boundary words x scale gaps x {twin, +1, -1} x signs; an exhaustive sweep of EVERY scale gap 1..1500 (5000 thorough) over coefficients around powers of two and ten with decimal and binary-structured neighbours (+-1, +2^32 .. +2^192); value-equal pairs with scale gaps of 10^4..10^6 (the only inputs on which the float estimate of the early-out decides); generated twins/neighbours/same-magnitude pairs up to 3000 digits, scale differences beyond 2^63, u64/u128 straddles, sort/max/min vectors; plain, sign-flipped and abs references. Every operator on BigDecimal and BigDecimalRef is compared with the oracle order; panics are violations (second build with debug assertions and overflow checks). The huge-gap stage also takes the scale gaps (to 250000 quick, 10^6 thorough) at which g*log2(10) is closest to an integer, computed exactly.",
            "Oracle: adjusted-exponent-first exact comparison on (BigInt, i128). Trusts num-bigint.",
            "5 C02"),
    "C03": ("exhaustive small-scope enumeration + proptest generation of value-equal representation pairs; byte-stream comparison through a recording Hasher",
            "Exploration: all canonical |n| < 2000 x scales -6..6 x 0..8 extra zeros each side exhaustively; every zero-run length 1..2500 (10000 thorough); generated twins up to 1500 digits incl. limb-structured integers (zero / all-ones 64-bit limbs ending in decimal zeros), zeros over the whole +-10^5 scale range, negative scale versus written-out zeros up to 90000 zeros. Byte stream, DefaultHasher, SipHasher13 and HashSet membership are compared; both build flavours. A stage of (c, scale -k) against written zeros with c*10^k around 2^32, 2^64 and 2^128.",
            "Equality of each pair is asserted by the exact oracle, not by the library. |scale| <= 10^5 as in the property.",
            "5 C03"),
    "C04": ("round-trip property testing (render -> library parser and independent reference evaluator) over a complete length x scale grid plus proptest generation",
            "Exploration: EVERY digit length 1..40 x EVERY scale -40..60 x 4 digit patterns x both signs, zero at every scale -2000..2000, generated values up to 3000 digits and scales to +-10^15; eight renderings each parsed back by the library and by a reference recogniser; digits/scale identity demanded exactly where the property demands it, scale 0 where an integer is written out with its zeros, no superfluous leading zero; Display notation switch and length bound checked against the build-time thresholds.",
            "Reference numeral evaluator in ws/oracle (no shared code). Plain notation only for |scale| <= 140000.",
            "5 C04"),
    "C05": ("exhaustive enumeration of all short strings over an 11-letter alphabet + grammar-based and mutation-based proptest generation (+ libFuzzer in the thorough tier), differential against a reference recogniser/evaluator",
            "Exploration with an exhaustive sub-scope: every string of length <= 8 (quick) / <= 9 (thorough) over {0,1,7,+,-,.,e,E,_,x,space}; numerals from the grammar with up to 4000 digits and exponents around +-2^63 and of 40 digits; byte-level mutations including non-ASCII digits, NUL and invalid UTF-8. Acceptance, value and scale must match the reference exactly; four entry points must agree; other radices rejected; no panic on either build flavour.",
            "The reference grammar is the property statement made executable (DESIGN.md section 5 C05).",
            "5 C05"),
    "C06": ("exhaustive enumeration (all 4200 round_pair arguments, round_u32 grid, all small decimals x targets x modes) + proptest generation of tie/near-tie/all-nines tails; quotient/remainder rounding oracle",
            "Exploration with exhaustive sub-scopes as named in the property; beyond them up to 3000-digit inputs with constructed tails and targets inside / at / left of the leading digit (by up to 2^48 places) and at the ends of the i64 scale range, extensions of up to 1180 places under every mode. Result scale and integer are compared exactly; with_scale == Down and round(n) == configured mode.",
            "Oracle: |n| div/rem 10^k and 2*rem vs 10^k. Configured default mode is read from the build environment, not from the library.",
            "5 C06"),
    "C07": ("exhaustive small-scope enumeration + proptest generation; rounding oracle at the p-th significant digit applied to every precision-rounding entry point",
            "Exploration: every |n| below the tier limit x 3 scales x every p in 1..digits+5 x 7 modes exhaustively; generated tails up to 3000 digits with p at the tail cut and around the digit count, scales at the ends of the i64 range, context sums with cancellation, carries and designed tie / near-tie tails of the exact sum, sign-flipped references, contexts made by the builder methods. Values compared exactly; digit count checked where the statement fixes it (padding).",
            "After an all-nines carry the library returns p+1 digits with the right value; only the value is compared there.",
            "5 C07"),
    "C08": ("proptest generation + exhaustive small scope and zero-divisor matrix; residual-based quotient oracle, differential between overloads",
            "Exploration: all a, b in -200..200 exhaustively, the full 10-type x special-value x 9-overload matrix, generated pairs up to 2000 digits including 2^i*5^j divisors, quotients terminating after exactly P-3..P+3 digits, a = q*b +- r constructions, primitive and float operands on either side. Exactness when the quotient has <= 100 digits, otherwise >= 100 digits within half an ulp with ties away from zero; zero divisors must panic in every form.",
            "Oracle decides 'terminates within P digits' by stripping factors 2 and 5; no division result is trusted. Non-normal floats are outside the statement's domain.",
            "5 C08"),
    "C09": ("exhaustive small scope + proptest generation against the truncated-division model",
            "Exploration: all a, b in -200..200 x 9 scale pairs exhaustively; generated pairs up to 2000 digits with scale gaps to 10^4 in both directions, twins and exact multiples with either operand at the finer scale; five forms each; zero divisor must panic.",
            "Model: align to the larger scale with exact powers of ten, BigInt truncated remainder.",
            "5 C09"),
    "C10": ("exhaustive small scope + proptest generation with constructed roots; correctly-rounded-root oracle decided by integer inequalities",
            "Exploration: every n below the tier limit x scales -3..3 x p 1..6 x 7 modes exhaustively; generated inputs up to 2000 digits, scales of both parities, inputs longer than 2(p+5) digits, x = R^2 (+-1 far away) with R ending in tie / 50..0x / 49..9x / 00..0x / 99..9x tails, exact roots at precisions far above their length, p to 150. Value form, default form and the three reference forms.",
            "Oracle: verified floor integer root, exactness flag, midpoint comparison, mode table.",
            "5 C10"),
    "C11": ("exhaustive small scope + proptest generation with constructed roots; correctly-rounded cube-root oracle; metamorphic sign-mirror relation",
            "Exploration as C10 with cubes, both signs, scales of all residues mod 3, p to 160; additionally cbrt_m(-x) = -cbrt_mirror(m)(x).",
            "Oracle: verified floor integer cube root, (2s+1)^3*den vs 8*num.",
            "5 C11"),
    "C12": ("exhaustive small scope and all 2^i*5^j + proptest generation; residual-based reciprocal oracle; iteration-cap hook for termination; metamorphic sign-mirror relation",
            "Exploration: every 0<|n| below the tier limit x 5 scales x p 1..6 x 7 modes and all 2^i*5^j (i<=60, j<=30) around their exact length exhaustively; generated inputs to 1500 digits, bit lengths to 5000, 99..9 / 100..01, reciprocals with 00../99.. after the p-th digit, p weighted to 1..5 and 100. Sign, < 1 unit of the p-th digit, exactness when 1/x has <= p digits, mirror law, agreement of inverse() and `1 / x`. A high-precision stage: p in 150..1300 on operands just above / below powers of two, small integers and random operands.",
            "Termination is observed through the --cfg bigdecimal_verif iteration cap (2000 Newton steps). The unit is that of the p-th digit of 1/x itself.",
            "5 C12"),
    "C13": ("exhaustive integer arguments + proptest generation; rigorous big-integer interval arithmetic for e^x as oracle",
            "Exploration: every integer argument in the tier's range, integers in several representations, generated arguments of 1..40 digits with magnitudes 1e-130..1e3, long arguments, x within 1e-95..1e-108 of k*ln10 (results that carry into a power of ten), near 0. Positivity, |exp(x) - e^x| <= one unit of the 100th digit decided against an enclosure about 1e-60 units wide (working digits = judged digits + 70), exp(0) = 1 exactly, batch monotonicity up to two units.",
            "Interval oracle self-tests (e^x*e^-x contains 1, e^(a+b) inside e^a*e^b) make the check exit 2, not 1, if they fail. Series-loop cap via the hook.",
            "5 C13"),
    "C14": ("exhaustive enumeration of f32 bit patterns (all 2^32 in the thorough tier) + proptest generation of f64 bit patterns and decimals; exact binary decoding as oracle",
            "Exploration: thorough enumerates all 2^32 f32 patterns; quick every f32/f64 exponent field x many mantissas; millions of random f64; decimals of 1..400 digits with exponents -400..400, halfway points between adjacent floats, values around MAX / MIN_POSITIVE / smallest subnormal. Conversion exactness, NaN/inf errors, identical bits on the way back, and the stated to_f64 tolerance.",
            "Oracle decodes bit patterns with integer arithmetic only.",
            "5 C14"),
    "C15": ("exhaustive grid around every type limit + proptest generation against integer truncation",
            "Exploration: LIMIT + d + fraction grid around i64/u64/i128/u128 MIN/MAX and 0 exhaustively, generated values of 1..60 digits at scales -40..40, fractions in (-1,1), values pushed past a limit by a negative scale; From / FromPrimitive for ten integer types at their extremes.",
            "Model: BigInt division truncates toward zero; range test against the type limits.",
            "5 C15"),
    "C16": ("exhaustive small scope x N 0..9 + proptest generation; rounding oracle, reference numeral evaluator and a model of Formatter::pad_integral",
            "Exploration: all |n| below the tier limit x scales -3..8 x N 0..9 x {:.N} {:.Ne} {:.NE} exhaustively; generated values to 300 digits, scales -1100..400, N to 1100, an exhaustive sweep of the padding limit (-scale + N = limit-1..limit+2 for every scale to -1100) with the exact unpadded text demanded beyond it, ties, all-nines carries; 192 literal format strings for the flag combinations with run-time width and precision.",
            "pad_integral model validated against std's integer formatting in the oracle's unit tests.",
            "5 C16"),
    "C17": ("proptest generation of decimals and JSON number texts (+ libFuzzer in the thorough tier); round-trip and differential against the reference evaluator; recording serializer",
            "Exploration: decimals of 1..400 digits with scales to +-150000 (+-1), each Display notation; JSON numbers of 1..2000 digits with fractions/exponents and malformed variants; exponents at the scale limit, at m*2^32 + d and beyond i64, exponent digits zero-padded to lengths around 20 and 39 and to 300; every number also read through a serde_json::Value; serde value deserializers of every integer/float width; json_num / json_num_option in a derived struct incl. null, through text and through Value; documents and tokens that are not numbers through every route; no panic on either build flavour. One open known finding (plain BigDecimal from a Value number goes through f64, see known-findings.txt) is recognised by an oracle-computed signature and reported as KNOWN-FINDING.",
            "Uses serde_json 1.0.117 (arbitrary_precision) from the repository's lock file.",
            "5 C17"),
    "C18": ("exhaustive enumeration (k = 0..5000 powers of ten, all 5-digit values x scales) + proptest generation; string-built expectations",
            "Exploration: digits() on both sides of every power of ten up to 10^5000 and the three power-of-ten algorithms exhaustively; all unscaled values of up to 5 digits x scales -6..6; generated values to 5000 digits with up to 5000 trailing zeros and extensions through with_scale / with_prec / the rounding forms. A stage of integers whose low machine words alone end in z decimal zeros (n = hi*2^(32w) + m*10^z).",
            "Expected integers are decimal strings built by the harness.",
            "5 C18"),
    "C19": ("model-based (stateful) property testing: generated operation programs interpreted on the library and on an exact model, invariant checked after every step (+ libFuzzer in the thorough tier)",
            "Exploration over histories: programs of 1..40 operations over a pool with special representations, random overload per step out of all 41 decimal spellings, the accumulator on either side and combined with itself or with one of its last four intermediate values; after every step value equality with the model, and ==, cmp and hash stream against a canonical twin. Both build flavours.",
            "The whole program shrinks as one proptest value.",
            "5 C19"),
    "C20": ("property-based testing of a probe binary rebuilt per build configuration (covering array over the configuration space), exhaustive small-scope division at precisions 1..3",
            "Exploration over build configurations: each configuration rebuilds the library through its build script with RUST_BIGDECIMAL_* set; the probe receives the configured values on its command line and checks default-context operations against explicit-context ones and against the oracles (7 configurations quick; all 56 precision x mode pairs with the three formatting parameters pairwise covered in the thorough tier; every fifth one built with debug assertions).",
            "Configured values are never read back from the library.",
            "5 C20"),
}

NOT_YET = "check not built yet in this round (design exists in DESIGN.md section 5); no claim is made"

def main():
    props = [json.loads(l) for l in open(os.path.join(ROOT, "properties.jsonl"))]
    ids = [p["id"] for p in props]
    modrs = open(os.path.join(ROOT, "ws/harness/src/props/mod.rs")).read()
    built = set(i for i in ids if f'"{i}" =>' in modrs)
    if os.path.exists(os.path.join(ROOT, "cfgprobe", "run.sh")):
        built.add("C20")
    withdrawn = set(json.load(open(os.path.join(ROOT, "tools", "withdrawn.json")))) if os.path.exists(os.path.join(ROOT, "tools", "withdrawn.json")) else set()
    claimed = [i for i in ids if i in CHECKS and i in built and i not in withdrawn]
    checks = []
    for i in claimed:
        tech, text, note, ref = CHECKS[i]
        checks.append({
            "property_id": i,
            "quick_cmd": f"./check {i} quick",
            "thorough_cmd": f"./check {i} thorough",
            "evidence_file": f"/verif/evidence/{i}.json",
            "replay_cmd_template": "./check replay {path}",
            "engine": "bdverif",
            "level_claimed": {"category": "exploration", "text": text, "design_ref": f"DESIGN.md section {ref}"},
            "level_note": note,
            "technique": tech,
        })
    na_reasons = {}
    na_file = os.path.join(ROOT, "tools", "not_applicable.json")
    if os.path.exists(na_file):
        na_reasons = json.load(open(na_file))
    manifest = {
        "version": 1,
        "setup_cmd": "./check build",
        "hooks": {
            "guard": "bigdecimal_verif",
            "enable": "RUSTFLAGS=\"--cfg bigdecimal_verif\" (set by ./check for every harness build; path dependency on /repo)",
            "baseline_off_cmd": "cd /repo && cargo test --workspace --no-fail-fast --offline",
            "source_commits": json.load(open(os.path.join(ROOT, "tools", "hook_commits.json"))) if os.path.exists(os.path.join(ROOT, "tools", "hook_commits.json")) else [],
            "add_only": True,
        },
        "engines": [
            {"name": "bdverif", "path": "ws/harness", "serves_properties": claimed,
             "kind_free_text": "Rust harness: proptest TestRunner per worker thread (fixed seeds from VERIF_SEED), exhaustive enumerators, exact oracle crate ws/oracle (no dependency on bigdecimal), replay files, known-finding table"},
            {"name": "fuzz", "path": "fuzz", "serves_properties": [i for i in claimed if i in ("C01", "C02", "C03", "C04", "C05", "C06", "C07", "C08", "C09", "C10", "C11", "C12", "C16", "C17", "C19")],
             "kind_free_text": "cargo-fuzz / libFuzzer targets with the semantic oracle inside the target (thorough tier only)"},
        ],
        "checks": checks,
        "not_applicable": [{"property_id": i, "reason": na_reasons.get(i, NOT_YET)} for i in ids if i not in claimed],
        "notes": "All checks: ./check <id> <tier>; exit 0 held / 1 VIOLATION line / 2 infrastructure (never a violation). Known findings: /verif/known-findings.txt (read-only at run time).",
    }
    json.dump(manifest, open(os.path.join(ROOT, "MANIFEST.json"), "w"), indent=1)
    print("claimed:", claimed)

if __name__ == "__main__":
    main()
