#!/bin/bash
# round 6: confirm one delivered change in the author's own scratch worktree (already built) and run the property's quick check
# on it in the isolated copy /tmp/eval6.   tools/eval_seed6.sh <Cnn> [k]
set -u
id=$1; k=${2:-1}
mkdir -p /verif/.work/seed6
v=$(VERIFY_WT=/tmp/s6-$id SEEDSRC=/tmp/seed6-out /verif/tools/verify_seed.sh $id $k 2>&1 | tail -1)
echo "VERIFY: $v" | tee /verif/.work/seed6/$id-$k.verify
