#!/bin/bash
# evaluate one round-4 seeded change: confirm it independently (scratch worktree) and run the property's quick check on it
# (isolated copy under /tmp/eval2).   tools/eval_seed4.sh <Cnn> <k>   -> one line on stdout, details in .work/seed4/<Cnn>-<k>.log
set -u
id=$1; k=$2
mkdir -p /verif/.work/seed4
LOG=/verif/.work/seed4/$id-$k.log
v=$(SEEDSRC=/tmp/seed4-out /verif/tools/verify_seed.sh $id $k 2>&1 | tail -1)
c=$(NO_SYNC=${NO_SYNC:-1} EVAL_DIR=/tmp/eval2 /verif/tools/try_patch_iso.sh /tmp/seed4-out/$id/patch$k.diff $id 2>&1 | tee "$LOG" | grep -m1 " rc=")
echo "VERIFY: $v | CHECK: $c"
