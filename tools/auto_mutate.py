#!/usr/bin/env python3
"""Automated mutation sweep (sensitivity measurement, not a registered check).

For a deterministic sample of single-token mutations of the library's non-test code:
  1. apply it in a scratch worktree (/tmp/mut/repo), run the crate's own tests (cargo test --workspace --offline);
     build failures and mutants killed by the existing tests are only counted;
  2. every mutant that SURVIVES the existing tests is run against the quick tier of the checks mapped to its file
     (isolated copy of /verif under /tmp/mut, tools/try_patch_iso.sh).
Results: one JSON line per mutant in .work/automut.jsonl.

usage: tools/auto_mutate.py <number of candidates> [seed]
"""
import json, os, random, re, subprocess, sys

REPO = "/repo"
MUT = "/tmp/mut"
OUT = "/verif/.work/automut.jsonl"

# file -> (checks, [line ranges to consider] or None for "up to the first module-level #[cfg(test)]")
FILES = {
    "src/arithmetic/addition.rs": ["C01", "C07", "C19"],
    "src/arithmetic/mod.rs": ["C18", "C01", "C06", "C11"],
    "src/arithmetic/sqrt.rs": ["C10"],
    "src/arithmetic/cbrt.rs": ["C11"],
    "src/arithmetic/inverse.rs": ["C12"],
    "src/context.rs": ["C07"],
    "src/impl_cmp.rs": ["C02", "C03"],
    "src/impl_convert.rs": ["C15", "C14", "C18"],
    "src/impl_fmt.rs": ["C04", "C16"],
    "src/impl_num.rs": ["C05", "C14", "C15"],
    "src/impl_ops.rs": ["C01", "C08", "C19"],
    "src/impl_ops_add.rs": ["C01", "C19"],
    "src/impl_ops_sub.rs": ["C01", "C19"],
    "src/impl_ops_mul.rs": ["C01", "C19"],
    "src/impl_ops_div.rs": ["C08"],
    "src/impl_ops_rem.rs": ["C09"],
    "src/impl_serde.rs": ["C17"],
    "src/parsing.rs": ["C05", "C14"],
    "src/rounding.rs": ["C06", "C07", "C16"],
}
# lib.rs by function (start line is looked up by name at run time)
LIB_FUNCS = {
    "fn ten_to_the": ["C18", "C01"], "fn count_decimal_digits": ["C18", "C07"], "fn get_rounding_term": ["C08", "C07"],
    "pub fn with_scale": ["C06", "C18", "C01"], "pub fn with_scale_round": ["C06", "C18"], "pub fn with_prec": ["C07", "C18"],
    "pub fn with_precision_round": ["C07"], "pub fn set_scale": ["C01", "C19"], "pub fn take_and_scale": ["C01", "C18"],
    "pub fn to_owned_with_scale": ["C15", "C18", "C06"], "pub fn sqrt": ["C10"], "pub fn cbrt": ["C11"], "pub fn inverse": ["C12"],
    "pub fn round": ["C06"], "pub fn is_integer": ["C15"], "pub fn exp": ["C13"], "fn exp_with_guard_digits": ["C13"],
    "pub fn normalized": ["C18", "C01"], "pub fn half": ["C01", "C19"], "pub fn double": ["C01", "C19"], "pub fn square": ["C01", "C19"],
    "pub fn cube": ["C01", "C19"], "fn impl_division": ["C08", "C13", "C20"], "fn hash": ["C03"], "pub fn digits": ["C18"],
    "pub fn abs": ["C01"], "pub fn sign": ["C18"], "pub fn to_scientific_notation": ["C04"], "pub fn to_engineering_notation": ["C04"],
    "pub fn to_plain_string": ["C04"], "pub fn count_digits": ["C18"], "pub fn round_with_context": ["C07"],
    "pub fn sqrt_with_context": ["C10"], "pub fn cbrt_with_context": ["C11"], "pub fn inverse_with_context": ["C12"],
}

OPS = [
    (re.compile(r" < "), " <= "), (re.compile(r" <= "), " < "), (re.compile(r" > "), " >= "), (re.compile(r" >= "), " > "),
    (re.compile(r" == "), " != "), (re.compile(r" != "), " == "), (re.compile(r" && "), " || "), (re.compile(r" \|\| "), " && "),
    (re.compile(r" \+ 1\b"), " + 2"), (re.compile(r" - 1\b"), " - 2"), (re.compile(r" \+ "), " - "), (re.compile(r" - "), " + "),
]
LIT = re.compile(r"(?<![\w.])([2-9]|[1-9][0-9]{1,2})(?![\w.])")


def code_part(line):
    i = line.find("//")
    return line if i < 0 else line[:i]


def candidates():
    cands = []
    def scan(path, lines, lo, hi, checks):
        skip_hook = 0
        for n in range(lo, hi):
            raw = lines[n]
            s = raw.strip()
            if "cfg(bigdecimal_verif)" in raw:
                skip_hook = 12
            if skip_hook > 0:
                skip_hook -= 1
                continue
            if not s or s.startswith("//") or s.startswith("#[") or s.startswith("use ") or "debug_assert" in s or "panic!" in s or "unreachable!" in s:
                continue
            if re.search(r"\b(fn|impl|where|struct|enum|trait|type|const|macro_rules!)\b", s) and not s.startswith("if") and not s.startswith("let"):
                continue
            code = code_part(raw)
            if "\"" in code:
                continue
            for k, (pat, rep) in enumerate(OPS):
                for m in pat.finditer(code):
                    # generics / arrows / lifetimes
                    if code[m.start() - 1:m.start() + 1] in ("->", "=>") or "<'" in code or "::<" in code:
                        continue
                    cands.append((path, n, "op%d" % k, m.start(), m.end(), rep, checks))
            for m in LIT.finditer(code):
                v = int(m.group(1))
                cands.append((path, n, "lit", m.start(), m.end(), str(v + 1), checks))
    for path, checks in FILES.items():
        lines = open(os.path.join(REPO, path)).read().split("\n")
        hi = len(lines)
        for i, l in enumerate(lines):
            if l.startswith("#[cfg(test)]") and i > 60:
                hi = i
                break
        scan(path, lines, 0, hi, checks)
    lines = open(os.path.join(REPO, "src/lib.rs")).read().split("\n")
    end = next(i for i, l in enumerate(lines) if l.startswith("#[cfg(test)]") and i > 1000)
    for i, l in enumerate(lines[:end]):
        for name, checks in LIB_FUNCS.items():
            if re.search(r"^\s*(#\[inline\]\s*)?(pub(\(crate\))?\s+)?" + re.escape(name.replace("pub ", "")) + r"\b", l.replace("pub fn", "fn").replace("pub(crate) fn", "fn")) and (name.startswith("pub fn") == ("pub fn" in l) or not name.startswith("pub fn")):
                # body: until the next line that starts a fn at the same or lower indentation
                ind = len(l) - len(l.lstrip())
                j = i + 1
                while j < end and not (re.match(r"^\s*(pub(\(crate\))?\s+)?fn\b", lines[j]) and len(lines[j]) - len(lines[j].lstrip()) <= ind) and not (lines[j].startswith("}") and ind == 0):
                    j += 1
                scan("src/lib.rs", lines, i + 1, min(j, end), checks)
    # de-duplicate (lib.rs functions may be matched twice)
    seen, out = set(), []
    for c in cands:
        key = c[:5]
        if key not in seen:
            seen.add(key)
            out.append(c)
    return out


def sh(cmd, timeout=None, cwd=None):
    # own process group, so that a timeout kills the test binaries of a hanging mutant too
    import signal
    p = subprocess.Popen(cmd, shell=True, cwd=cwd, stdout=subprocess.PIPE, stderr=subprocess.STDOUT, text=True, start_new_session=True)
    try:
        out, _ = p.communicate(timeout=timeout)
        return p.returncode, out
    except subprocess.TimeoutExpired:
        try:
            os.killpg(p.pid, signal.SIGKILL)
        except ProcessLookupError:
            pass
        p.communicate()
        return 124, "TIMEOUT"


def main():
    n = int(sys.argv[1])
    seed = int(sys.argv[2]) if len(sys.argv) > 2 else 1
    cands = candidates()
    random.Random(seed).shuffle(cands)
    os.makedirs(MUT, exist_ok=True)
    if not os.path.isdir(MUT + "/repo"):
        sh("git -C /repo worktree add -q --detach %s/repo HEAD" % MUT)
    head = sh("git -C /repo rev-parse HEAD")[1].strip()
    sh("git -C %s/repo checkout -q --detach %s && git -C %s/repo checkout -- ." % (MUT, head, MUT))
    done = set()
    if os.path.exists(OUT):
        for l in open(OUT):
            try:
                d = json.loads(l)
                done.add((d["file"], d["line"], d["op"], d["col"]))
            except Exception:
                pass
    sys.stderr.write("candidates: %d, sampling %d\n" % (len(cands), n))
    first_sync = True
    for (path, ln, op, a, b, rep, checks) in cands[:n]:
        if (path, ln + 1, op, a) in done:
            continue
        sh("git -C %s/repo checkout -- ." % MUT)
        fp = os.path.join(MUT, "repo", path)
        lines = open(fp).read().split("\n")
        old = lines[ln]
        lines[ln] = old[:a] + rep + old[b:]
        open(fp, "w").write("\n".join(lines))
        rec = {"file": path, "line": ln + 1, "op": op, "col": a, "before": old.strip(), "after": lines[ln].strip(), "checks": checks}
        rc, out = sh("cargo test --workspace --offline 2>&1 | grep -E '^test result|^error|panicked' | head -20", timeout=420, cwd=MUT + "/repo")
        if rc == 124:
            rec["suite"] = "timeout"
        elif "error" in out and "test result" not in out:
            rec["suite"] = "build-fails"
        elif re.search(r"test result: FAILED|[1-9][0-9]* failed", out):
            rec["suite"] = "killed-by-existing-tests"
        elif "test result: ok" in out:
            rec["suite"] = "survives"
        else:
            rec["suite"] = "unclear"
        if rec["suite"] == "survives":
            sh("git -C %s/repo diff > %s/cur.diff" % (MUT, MUT))
            env = "EVAL_DIR=%s NO_SYNC=%d" % (MUT, 0 if first_sync else 1)
            first_sync = False
            rc, out = sh("%s /verif/tools/try_patch_iso.sh %s/cur.diff %s" % (env, MUT, " ".join(checks)), timeout=2400)
            res = {}
            for l in out.split("\n"):
                m = re.search(r" (C\d\d) rc=(\d+)(.*)$", l)
                if m:
                    res[m.group(1)] = {"rc": int(m.group(2)), "first": m.group(3).strip()[:200]}
            rec["results"] = res
            rec["caught"] = any(r["rc"] == 1 for r in res.values())
            rec["inconclusive"] = (not rec["caught"]) and any(r["rc"] >= 2 for r in res.values())
        with open(OUT, "a") as f:
            f.write(json.dumps(rec) + "\n")
    sh("git -C %s/repo checkout -- ." % MUT)


if __name__ == "__main__":
    main()
