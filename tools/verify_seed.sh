#!/bin/bash
# Independently confirm a seeded change delivered by a sub-agent, in a scratch worktree (never in /repo):
#   tools/verify_seed.sh <Cnn> <k>     reads /tmp/seed-out/<Cnn>/{patch<k>.diff,demo<k>.rs,meta<k>.txt}
# prints: applies / suite-passes / demo-fails-with / demo-passes-without
set -u
id=$1; k=$2
SRC=${SEEDSRC:-/tmp/seed-out}/$id
WT=${VERIFY_WT:-/tmp/verify-wt}
FEAT=""
[ "$id" = C17 ] && FEAT="--features serde-json"
if [ ! -d $WT ]; then git -C /repo worktree add -q --detach $WT HEAD || exit 2; fi
git -C $WT checkout -q --detach "$(git -C /repo rev-parse HEAD)" 2>/dev/null
git -C $WT checkout -- . ; rm -rf $WT/tests
res="$id/$k"
if ! git -C $WT apply --check "$SRC/patch$k.diff" 2>/dev/null; then echo "$res DOES-NOT-APPLY"; exit 1; fi
mkdir -p $WT/tests; cp "$SRC/demo$k.rs" $WT/tests/seed_demo.rs
envs=""
[ -f "$SRC/env$k.txt" ] && envs=$(cat "$SRC/env$k.txt")
# demo on the pristine tree
if (cd $WT && env $envs cargo test --offline $FEAT --test seed_demo >$WT.demo-pristine.log 2>&1); then res="$res demo-passes-without"; else res="$res DEMO-FAILS-WITHOUT"; fi
git -C $WT apply "$SRC/patch$k.diff"
if (cd $WT && env $envs cargo test --offline $FEAT --test seed_demo >$WT.demo-patched.log 2>&1); then res="$res DEMO-PASSES-WITH"; else res="$res demo-fails-with"; fi
rm -rf $WT/tests
# the existing suite with the change (default configuration)
if (cd $WT && cargo test --workspace --no-fail-fast --offline 2>&1 | grep -E "^test result" | grep -v " 0 failed" | grep -q .); then res="$res SUITE-FAILS"; else
   if (cd $WT && cargo test --workspace --no-fail-fast --offline 2>&1 | grep -qE "^test result: ok. 861 passed"); then res="$res suite-passes(861)"; else res="$res SUITE-UNCLEAR"; fi
fi
git -C $WT checkout -- .
echo "$res"
