#!/usr/bin/env python3
"""Generate hand-written property-breaking patches into /verif/mutants/ (sensitivity testing).
Each mutant: (name, property ids it should be caught by, file, old, new)."""
import subprocess, os, sys
WT = "/tmp/mut-wt"
OUT = "/verif/mutants"
M = [
 ("m01-ten-to-the-590", ["C01","C18"], "src/arithmetic/mod.rs",
  "    if rem == 0 {\n        res\n    } else {\n        res * 10u64.pow(rem as u32)\n    }",
  "    if rem <= 1 {\n        res\n    } else {\n        res * 10u64.pow(rem as u32)\n    }"),
 ("m02-mul-one-shortcut-scale", ["C01","C19"], "src/impl_ops_mul.rs", "    fn mul_assign(&mut self, rhs: &BigDecimal) {\n        if rhs.is_one() {\n            return;\n        }", "    fn mul_assign(&mut self, rhs: &BigDecimal) {\n        if rhs.int_val.is_one() {\n            return;\n        }"),
 ("m03-hash-trim-off-by-one", ["C03"], "src/lib.rs", "x == '0' && cnt <= scale", "x == '0' && cnt < scale"),
 ("m04-display-threshold-le", ["C04"], "src/impl_fmt.rs", "if f.precision().is_none() && leading_zero_threshold < leading_zero_count {", "if f.precision().is_none() && leading_zero_threshold <= leading_zero_count {"),
 ("m05-parse-count-underscore", ["C05"], "src/impl_num.rs", "let trail_digits = trail.chars().filter(|c| *c != '_').count();", "let trail_digits = trail.chars().count();"),
 ("m06-halfeven-parity", ["C06","C07"], "src/rounding.rs", "(HalfEven, Equal) => if lhs % 2 == 0 { down } else { up },", "(HalfEven, Equal) => if lhs % 2 == 1 { down } else { up },"),
 ("m07-carry-loop-nine", ["C06","C07"], "src/lib.rs", "                                if digits[i] < 9 {\n                                    digits[i] += 1;", "                                if digits[i] < 9 || i + 1 == digit_count {\n                                    digits[i] += 1;"),
 ("m08-rounding-term-6", ["C07","C08","C13"], "src/lib.rs", "        n *= 5;\n        if *num < n {\n            return 0;\n        }", "        n *= 6;\n        if *num < n {\n            return 0;\n        }\n        n /= 6; n *= 5;"),
 ("m09-rem-wrong-operand", ["C09"], "src/impl_ops_rem.rs", "            let scaled_num = num * ten_to_the((scale - self.scale) as u64);\n            scaled_num % den\n        };\n\n        BigDecimal::new(result, scale)", "            let scaled_num = num * ten_to_the((scale - self.scale) as u64 + 1) / 10;\n            scaled_num % den\n        };\n\n        BigDecimal::new(result, scale)"),
 ("m10-sqrt-guard-digits", ["C10"], "src/arithmetic/sqrt.rs", "let extra_rounding_digit_count = 5;", "let extra_rounding_digit_count = 0;"),
 ("m11-cbrt-newscale", ["C11"], "src/arithmetic/cbrt.rs", "            new_scale += 1;\n            exp_shift += (3 - remainder) as u64;", "            new_scale += 1;\n            exp_shift += (3 - remainder) as u64 % 2 + (3 - remainder) as u64 / 2;"),
 ("m12-inverse-guess", ["C12"], "src/arithmetic/inverse.rs", "let magic_factor = stdlib::f64::consts::LN_2;", "let magic_factor = 3.0 * stdlib::f64::consts::LN_2;"),
 ("m13-exp-117", ["C13"], "src/lib.rs", "term.scale, 117 + precision);", "term.scale, 17 + precision);"),
 ("m14-five-to-149", ["C14"], "src/parsing.rs", "1466336501, 2126633373,", "1466336501, 2126633372,"),
 ("m15-to-i64-limit", ["C15"], "src/impl_num.rs", "|d| match d.cmp(&(i64::MAX as u64 + 1)) {", "|d| match d.cmp(&(i64::MAX as u64)) {"),
 ("m16-all-nines-removed-count", ["C16"], "src/impl_fmt.rs", "            removed_digit_count += significant_digit_count.get();", "            removed_digit_count += significant_digit_count.get() - 1;"),
 ("m17-serde-limit-ge", ["C17"], "src/impl_serde.rs", "if n.scale.abs() > SERDE_SCALE_LIMIT && SERDE_SCALE_LIMIT > 0 {", "if n.scale.abs() >= SERDE_SCALE_LIMIT && SERDE_SCALE_LIMIT > 0 {"),
 ("m18-count-digits-loop", ["C18","C07"], "src/arithmetic/mod.rs", "    while *uint >= num {\n        num *= 10u8;\n        digits += 1;\n    }", "    while *uint > num {\n        num *= 10u8;\n        digits += 1;\n    }"),
 ("m19-default-precision-literal", ["C20"], "src/impl_ops_div.rs", None, None),
 ("m20-cmp-digit-count", ["C02","C19"], "src/impl_cmp.rs", "    let digit_count_cmp = a_digit_count.cmp(&(b_digit_count + scale_diff));", "    let digit_count_cmp = a_digit_count.cmp(&(b_digit_count + scale_diff.min(40)));"),
 ("m21-eq-lowdigits", ["C02","C03"], "src/impl_cmp.rs", "    if low_digits.iter().any(|&d| d != 0) {\n        return false;\n    }", "    if low_digits.iter().skip(1).any(|&d| d != 0) {\n        return false;\n    }"),
 ("m22-add-assign-scale0-fastpath", ["C01","C19"], "src/impl_ops.rs", "                } else if self.scale == 0 {\n                    self.int_val += rhs;", "                } else if self.scale <= 0 {\n                    self.int_val += rhs;"),
 ("m23-to-f64-trim", ["C14"], "src/impl_num.rs", "const N: u64 = 25;", "const N: u64 = 9;"),
 ("m24-division-rounding", ["C08"], "src/lib.rs", "        quotient += get_rounding_term(&remainder.div(den));", "        quotient += get_rounding_term(&(remainder.div(den) - 1));"),
 ("m25-sci-exponent", ["C04"], "src/impl_fmt.rs", '    write!(w, "e{}", remaining_digits.len() as i128 - n.scale as i128)', '    write!(w, "e{}", remaining_digits.len() as i64 as i32 as i128 - n.scale as i32 as i128)'),
 ("m26-json-num-option-f64", ["C17"], "src/impl_serde.rs", "                                     .map(|num| num.as_str().parse().map_err(serde::de::Error::custom))", "                                     .map(|num| if num.as_str().len() > 40 { num.as_f64().map(|f| f.to_string()).unwrap_or_default().parse().map_err(serde::de::Error::custom) } else { num.as_str().parse().map_err(serde::de::Error::custom) })"),
 ("m27-round-u32-shift", ["C06"], "src/rounding.rs", "        let rounded = self.round_pair(sign, pair, trailing_zeros && remainder == 0);", "        let rounded = self.round_pair(sign, pair, trailing_zeros || remainder == 0);"),
 ("m28-normalized-neg", ["C18","C19"], "src/lib.rs", "        let scale = self.scale - trailing_count as i64;\n        BigDecimal::new(int_val, scale)", "        let scale = if self.scale < 0 && trailing_count > 18 { self.scale - trailing_count as i64 + 1 } else { self.scale - trailing_count as i64 };\n        BigDecimal::new(int_val, scale)"),
]

def run(*a, **k):
    return subprocess.run(*a, **k, capture_output=True, text=True)

def main():
    os.makedirs(OUT, exist_ok=True)
    run(["git","-C",WT,"checkout","--","."])
    idx = []
    for name, props, f, old, new in M:
        path = os.path.join(WT, f)
        s = open(path).read()
        if name == "m19-default-precision-literal":
            old = "        let max_precision = DEFAULT_PRECISION;\n\n        return impl_division(num_int.clone(), den_int, scale, max_precision);"
            new = "        let max_precision = 100;\n\n        return impl_division(num_int.clone(), den_int, scale, max_precision);"
        if new is None:
            continue
        if s.count(old) != 1:
            print("SKIP (anchor count %d): %s" % (s.count(old), name)); continue
        open(path,"w").write(s.replace(old,new))
        d = run(["git","-C",WT,"diff"]).stdout
        open(os.path.join(OUT, name + ".patch"),"w").write(d)
        run(["git","-C",WT,"checkout","--","."])
        idx.append((name, props))
    import json
    json.dump([{"mutant": n, "expected_to_be_caught_by": p} for n,p in idx], open(os.path.join(OUT,"index.json"),"w"), indent=1)
    print(len(idx), "mutants written")

main()
