#!/bin/bash
# Like try_patch.sh but fully isolated: the patch is applied to a scratch worktree of /repo and the
# checks run from a scratch copy of /verif whose Cargo manifests point at that worktree. Neither
# /repo nor /verif/evidence is touched, so it can run while other checks use /repo.
#   tools/try_patch_iso.sh <patch.diff> <Cnn> [<Cnn>...]      (env TIER=quick|thorough)
set -u
ROOT=$(cd "$(dirname "$0")/.." && pwd)
patch=$(readlink -f "$1"); shift
tier=${TIER:-quick}
E=${EVAL_DIR:-/tmp/eval}
mkdir -p $E
if [ ! -d $E/repo ]; then git -C /repo worktree add -q --detach $E/repo HEAD || exit 2; fi
git -C $E/repo checkout -q --detach "$(git -C /repo rev-parse HEAD)" && git -C $E/repo checkout -- . || exit 2
# NO_SYNC=1: keep the snapshot of /verif that is already there (frozen machinery while /verif is being edited)
if [ "${NO_SYNC:-0}" != 1 ] || [ ! -d $E/verif ]; then
rsync -a --delete --exclude .work --exclude .git --exclude replays --exclude evidence "$ROOT/" $E/verif/
fi
mkdir -p $E/verif/evidence
sed -i "s|path = \"/repo\"|path = \"$E/repo\"|" $E/verif/ws/harness/Cargo.toml $E/verif/cfgprobe/Cargo.toml $E/verif/fuzz/Cargo.toml
if ! git -C $E/repo apply "$patch"; then echo "try_patch_iso: patch does not apply: $patch" >&2; exit 2; fi
label="$(basename "$(dirname "$patch")")/$(basename "$patch")"
for prop in "$@"; do
    out=$($E/verif/check "$prop" "$tier" 2>&1)
    rc=$?
    sig=$(echo "$out" | grep -m1 -A1 "^VIOLATION" | tail -1 | sed 's/^ *//' | cut -c1-260)
    echo "$label $prop rc=$rc $sig"
    if [ $rc -eq 2 ]; then echo "$out" | tail -5; fi
done
git -C $E/repo checkout -- .
