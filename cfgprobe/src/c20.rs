//! C20 — compile-time configuration is honoured by every default-context operation.
//! This module is compiled into the probe binary `bdcfg`, which is rebuilt once per
//! build configuration (RUST_BIGDECIMAL_* variables set for the cargo invocation).

use crate::conv::{build_cfg, dec_of, mode_of, rm, BuildCfg};
use crate::engine::{Ctx, Verdict};
use crate::ensure;
use crate::gen::{self, D};
use bdoracle::numeral::parse_reference;
use bdoracle::quot::{quotient_check, reciprocal_check};
use bdoracle::root::root_rounded;
use bdoracle::round::round_to_scale;
use bdoracle::{Dec, Mode};
use bigdecimal::{BigDecimal, Context, RoundingMode};
use proptest::prelude::*;
use serde::{Deserialize, Serialize};
use std::num::NonZeroU64;

pub const RULE: &str = "case = (build configuration, input): Context::default() must report the configured precision and mode; sqrt / cbrt / inverse / round must equal their explicit-context forms (and the oracles) at the configured values; a / b must satisfy the division oracle at the configured precision; exp must deliver the configured number of digits; Display must switch notation exactly at the configured zero counts; {:.N} and {:.Ne} must round with the configured mode (values and references print alike) and {:.N} must pad up to the configured limit, printing the unpadded form beyond it; non-trivial = the configured value changes the result relative to the default build (100, HalfEven, 5, 15, 1000); distinct = structural hash / enumerated tuples, summed over configurations";
pub const EXPLANATION: &str = "Each configuration rebuilds the library through its own build script; the probe learns the configuration from the same environment at its own compile time and, independently, from its command line (a mismatch is an infrastructure error, exit 2) - never from the library. Division is exhaustive over all numerators and denominators below 1000 when the configured precision is 1..3.";

const DEFAULT: BuildCfg = BuildCfg { precision: 100, mode: Mode::HalfEven, lower: 5, upper: 15, padding: 1000, serde_limit: 150000 };

#[derive(Clone, Debug, Hash, Serialize, Deserialize)]
pub struct Unit {
    pub what: String,
}

pub fn check_context(_c: &Unit) -> Verdict {
    let cfg = build_cfg();
    let ctx = Context::default();
    let mut v = Verdict::pass(cfg.precision != DEFAULT.precision || cfg.mode != DEFAULT.mode);
    ensure!(v, ctx.precision().get() == cfg.precision, "C20/context-precision", "Context::default().precision() = {} but {} was configured", ctx.precision(), cfg.precision);
    ensure!(v, mode_of(ctx.rounding_mode()) == cfg.mode, "C20/context-mode", "Context::default().rounding_mode() = {:?} but {} was configured", ctx.rounding_mode(), cfg.mode.name());
    ensure!(v, mode_of(RoundingMode::default()) == cfg.mode, "C20/default-mode", "RoundingMode::default() = {:?} but {} was configured", RoundingMode::default(), cfg.mode.name());
    v
}

#[derive(Clone, Debug, Hash, Serialize, Deserialize)]
pub struct Pair {
    pub a: D,
    pub b: D,
}

/// the decimal as an i32 when it is an integer written with scale 0 that fits
fn i32_of(d: &D) -> Option<i32> {
    if d.scale != 0 {
        return None;
    }
    d.int.parse::<i32>().ok()
}

pub fn check_div(c: &Pair) -> Verdict {
    let cfg = build_cfg();
    if c.b.is_zero() {
        return Verdict::inconclusive("zero divisor");
    }
    let (a, b) = (c.a.bd(), c.b.bd());
    let q = &a / &b;
    let mut v = Verdict::pass(false);
    match quotient_check(&c.a.dec(), &c.b.dec(), &dec_of(&q), cfg.precision) {
        Ok(info) => {
            // the configuration matters when the quotient does not terminate within the default 100 digits
            // or within the configured precision
            v.nontrivial = cfg.precision != DEFAULT.precision && !info.must_be_exact;
        }
        Err(e) => {
            let kind = e.split(':').next().unwrap_or("bad").to_string();
            ensure!(v, false, format!("C20/division-{}", kind), "a / b at configured precision {}: {} (a = {}, b = {}, q = {})", cfg.precision, e, c.a.dec().show(), c.b.dec().show(), dec_of(&q).show());
        }
    }
    // every ownership form has its own DEFAULT_PRECISION site
    let forms: [(&str, BigDecimal); 3] = [("BD / BD", a.clone() / b.clone()), ("BD / &BD", a.clone() / &b), ("&BD / BD", &a / b.clone())];
    for (what, q2) in forms {
        ensure!(v, dec_of(&q2).eq_val(&dec_of(&q)), format!("C20/division-forms:{}", what), "{} = {} but &BD / &BD = {}", what, dec_of(&q2).show(), dec_of(&q).show());
    }
    // primitive operands go through the same machinery (and its shortcuts for +-1 and +-2) under the configured defaults
    if let (Some(ai), Some(bi)) = (i32_of(&c.a), i32_of(&c.b)) {
        if bi != 0 {
            let prim: [(&str, BigDecimal); 4] = [("i32 / BD", ai / b.clone()), ("i32 / &BD", ai / &b), ("BD / i32", a.clone() / bi), ("&BD / i32", &a / bi)];
            for (what, q2) in prim {
                // division by +-2 is documented to return the exact half whatever the precision
                if what.ends_with("/ i32") && (bi == 2 || bi == -2) {
                    continue;
                }
                // a primitive numerator one is the reciprocal (inverse(), rounded with the configured mode): exempt in C08
                if what.starts_with("i32 /") && ai == 1 {
                    continue;
                }
                ensure!(v, dec_of(&q2).eq_val(&dec_of(&q)), format!("C20/division-forms:{}", what), "{} = {} but &BD / &BD = {} (a = {}, b = {})", what, dec_of(&q2).show(), dec_of(&q).show(), c.a.dec().show(), c.b.dec().show());
            }
        }
    }
    // "deliver the configured number of significant digits": a ROUNDED quotient (q * b != a) has the configured number
    // of digits - not the default 100, not max(configured, 100). The library never truncates the integer quotient of the
    // two unscaled integers (21 / 2 at precision 1 is 10 or 11, "at least P digits" in C08's words), so the bound is
    // max(P, digits of floor(|a.int| / |b.int|)), plus one only when rounding carried into 10..0
    if quotient_check(&c.a.dec(), &c.b.dec(), &dec_of(&q), cfg.precision).is_ok() && !dec_of(&q).mul(&c.b.dec()).eq_val(&c.a.dec()) {
        let qd = dec_of(&q);
        let nd = bdoracle::dec::ndigits(&qd.int);
        let q0 = c.a.bigint().magnitude() / c.b.bigint().magnitude();
        let q0d = if q0 == num_bigint::BigUint::from(0u8) { 0 } else { q0.to_string().len() as u64 };
        let bound = cfg.precision.max(q0d);
        let carried = nd == bound + 1 && qd.canonical().int.magnitude() == &num_bigint::BigUint::from(1u8);
        ensure!(v, (cfg.precision..=bound).contains(&nd) || carried, "C20/division-digits", "a / b has {} significant digits but {} were configured (a = {}, b = {})", nd, cfg.precision, c.a.dec().show(), c.b.dec().show());
    }
    v
}

#[derive(Clone, Debug, Hash, Serialize, Deserialize)]
pub struct Num {
    pub d: D,
    pub round_to: i64,
}

pub fn check_num(c: &Num) -> Verdict {
    let cfg = build_cfg();
    let p = cfg.precision;
    let ctx = Context::new(NonZeroU64::new(p).unwrap(), rm(cfg.mode));
    let x = c.d.bd();
    let m = c.d.dec();
    let mut v = Verdict::pass(cfg.precision != DEFAULT.precision || cfg.mode != DEFAULT.mode);
    if c.d.is_zero() {
        return Verdict::pass(false);
    }
    // sqrt (on |x|)
    let ax = x.abs();
    let mag = c.d.bigint().magnitude().clone();
    let s_def = ax.sqrt().map(|s| dec_of(&s));
    let s_exp = ax.sqrt_with_context(&ctx).map(|s| dec_of(&s));
    let s_want = root_rounded(&mag, c.d.scale as i128, 2, p, cfg.mode, false).value;
    ensure!(v, s_def.as_ref().map(|s| s.eq_val(&s_want)) == Some(true), "C20/sqrt", "sqrt() = {:?} but sqrt at ({}, {}) is {}", s_def.as_ref().map(|s| s.show()), p, cfg.mode.name(), s_want.show());
    ensure!(v, s_exp.as_ref().map(|s| s.eq_val(&s_want)) == Some(true), "C20/sqrt-explicit", "sqrt_with_context = {:?} expected {}", s_exp.as_ref().map(|s| s.show()), s_want.show());
    // "behave exactly like their explicit counterparts": the same digits and scale, not only the same value
    ensure!(v, s_def == s_exp, "C20/sqrt-repr", "sqrt() = {:?} but sqrt_with_context(configured) = {:?}", s_def.as_ref().map(|s| s.show()), s_exp.as_ref().map(|s| s.show()));
    // cbrt
    let c_def = dec_of(&x.cbrt());
    let c_exp = dec_of(&x.cbrt_with_context(&ctx));
    let c_want = root_rounded(&mag, c.d.scale as i128, 3, p, cfg.mode, c.d.is_neg()).value;
    ensure!(v, c_def.eq_val(&c_want), "C20/cbrt", "cbrt() = {} but cbrt at ({}, {}) is {}", c_def.show(), p, cfg.mode.name(), c_want.show());
    ensure!(v, c_exp.eq_val(&c_want), "C20/cbrt-explicit", "cbrt_with_context = {} expected {}", c_exp.show(), c_want.show());
    ensure!(v, c_def == c_exp, "C20/cbrt-repr", "cbrt() = {} but cbrt_with_context(configured) = {}", c_def.show(), c_exp.show());
    // inverse
    let i_def = dec_of(&x.inverse());
    let i_exp = dec_of(&x.inverse_with_context(&ctx));
    ensure!(v, i_def == i_exp, "C20/inverse-repr", "inverse() = {} but inverse_with_context(configured) = {}", i_def.show(), i_exp.show());
    ensure!(v, i_def.eq_val(&i_exp), "C20/inverse", "inverse() = {} but inverse_with_context(configured) = {}", i_def.show(), i_exp.show());
    if let Err((kind, detail, _)) = reciprocal_check(&m, &i_def, p) {
        ensure!(v, false, format!("C20/inverse-{}", kind), "inverse() at configured precision {}: {}", p, detail);
    }
    // round(n)
    let r_def = dec_of(&x.round(c.round_to));
    let r_exp = dec_of(&x.with_scale_round(c.round_to, rm(cfg.mode)));
    let r_want = round_to_scale(&c.d.bigint(), c.d.scale as i128, c.round_to as i128, cfg.mode);
    ensure!(v, r_def.scale == c.round_to as i128 && r_def.int == r_want, "C20/round", "round({}) = {} expected {}e{} ({})", c.round_to, r_def.show(), r_want, -c.round_to, cfg.mode.name());
    ensure!(v, r_exp == r_def, "C20/round-explicit", "round({}) = {} but with_scale_round(.., configured mode) = {}", c.round_to, r_def.show(), r_exp.show());
    v
}

#[derive(Clone, Debug, Hash, Serialize, Deserialize)]
pub struct ExpArg {
    pub d: D,
}

pub fn check_exp_digits(c: &ExpArg) -> Verdict {
    let cfg = build_cfg();
    let x = c.d.bd();
    if c.d.is_zero() {
        return Verdict::pass(false);
    }
    let r = x.exp();
    let mut v = Verdict::pass(cfg.precision != DEFAULT.precision);
    // P digits; P+1 only when the final rounding carried into a new leading digit (10..0)
    let rd = r.digits();
    let carried = rd == cfg.precision + 1 && dec_of(&r).canonical().int.magnitude() == &num_bigint::BigUint::from(1u8);
    ensure!(v, rd == cfg.precision || carried, "C20/exp-digits", "exp({}) has {} significant digits but {} were configured", c.d.dec().show(), rd, cfg.precision);
    ensure!(v, dec_of(&r).signum() > 0, "C20/exp-positive", "exp({}) = {}", c.d.dec().show(), dec_of(&r).show());
    // "deliver the configured number of significant digits": all P digits must be digits of e^x
    let pd = cfg.precision;
    match bdoracle::expo::judge(&c.d.dec(), &dec_of(&r), pd, 1).0 {
        bdoracle::expo::ExpVerdict::Within => {}
        bdoracle::expo::ExpVerdict::Undecided => return Verdict::inconclusive("enclosure straddles the tolerance"),
        bdoracle::expo::ExpVerdict::Outside { approx_units } => {
            ensure!(v, false, "C20/exp-inaccurate", "exp({}) is {:.2} units of digit {} away from e^x", c.d.dec().show(), approx_units, pd);
        }
    }
    v
}

#[derive(Clone, Debug, Hash, Serialize, Deserialize)]
pub struct Fmt {
    pub d: D,
    pub prec: Option<u32>,
    /// {:.Ne} instead of {:.N}
    #[serde(default)]
    pub sci: bool,
}

pub fn check_fmt(c: &Fmt) -> Verdict {
    let cfg = build_cfg();
    let x = c.d.bd();
    let m = c.d.dec();
    let nd = c.d.ndigits() as i128;
    let scale = c.d.scale as i128;
    let mut v = Verdict::pass(false);
    let show = |s: &str| crate::engine::truncate(s, 120);
    if let (true, Some(n)) = (c.sci, c.prec) {
        // {:.Ne}: N + 1 significant digits under the configured mode, on values and references
        let text = format!("{:.*e}", n as usize, x);
        let text_ref = format!("{:.*e}", n as usize, x.to_ref());
        ensure!(v, text == text_ref, "C20/sci-ref-differs", "{{:.{}e}} prints {:?} for the value and {:?} for its reference", n, show(&text), show(&text_ref));
        let want = bdoracle::round::round_to_prec(&c.d.bigint(), scale, n as u64 + 1, cfg.mode);
        let want_default = bdoracle::round::round_to_prec(&c.d.bigint(), scale, n as u64 + 1, DEFAULT.mode);
        v.nontrivial = !want.eq_val(&want_default);
        let body = text.strip_prefix('-').unwrap_or(&text);
        let mant = body.split('e').next().unwrap_or("");
        let shape_ok = body.contains('e') && mant.len() == if n == 0 { 1 } else { n as usize + 2 } && (mant.starts_with(|ch: char| ('1'..='9').contains(&ch)) || want.is_zero());
        ensure!(v, shape_ok, "C20/sci-shape", "{{:.{}e}} printed {:?}", n, show(&text));
        match parse_reference(text.as_bytes()) {
            Some((i, s)) => ensure!(v, Dec::new(i, s as i128).eq_val(&want), "C20/sci-value", "{{:.{}e}} of {} printed {:?} expected the value {} under {}", n, m.show(), show(&text), want.show(), cfg.mode.name()),
            None => ensure!(v, false, "C20/sci-not-a-numeral", "{:?} is not a numeral", show(&text)),
        }
        return v;
    }
    match c.prec {
        None => {
            let text = format!("{}", x);
            let text_ref = format!("{}", x.to_ref());
            ensure!(v, text == text_ref, "C20/display-ref-differs", "Display prints {:?} for the value and {:?} for its reference", show(&text), show(&text_ref));
            let leading = if scale > nd { scale - nd } else { 0 };
            let trailing = if scale < 0 { -scale } else { 0 };
            let want_exp = leading > cfg.lower as i128 || trailing > cfg.upper as i128;
            let default_exp = leading > DEFAULT.lower as i128 || trailing > DEFAULT.upper as i128;
            v.nontrivial = want_exp != default_exp;
            let has_exp = text.contains('e') || text.contains('E');
            ensure!(v, has_exp == want_exp, "C20/notation-switch", "Display {:?} (exponent form: {}) with {} leading / {} trailing zeros under thresholds lower={} upper={}", show(&text), has_exp, leading, trailing, cfg.lower, cfg.upper);
            match parse_reference(text.as_bytes()) {
                Some((i, s)) => ensure!(v, Dec::new(i, s as i128).eq_val(&m), "C20/display-value", "Display {:?} does not denote {}", show(&text), m.show()),
                None => ensure!(v, false, "C20/display-not-a-numeral", "Display {:?} is not a numeral", show(&text)),
            }
        }
        Some(n) => {
            let text = format!("{:.*}", n as usize, x);
            let text_ref = format!("{:.*}", n as usize, x.to_ref());
            ensure!(v, text == text_ref, "C20/precision-ref-differs", "{{:.{}}} prints {:?} for the value and {:?} for its reference", n, show(&text), show(&text_ref));
            let n = n as i128;
            let (_, body) = match text.strip_prefix('-') {
                Some(r) => (false, r),
                None => (true, text.as_str()),
            };
            // the limit is on the number of padded zeros (the point is not a zero)
            let frac_pad: u128 = n as u128;
            let zero_pad: u128 = if scale <= 0 { (-scale) as u128 + frac_pad } else { 0 };
            let ambiguous_zero = c.d.is_zero() && scale < 0 && frac_pad <= cfg.padding as u128 && zero_pad > cfg.padding as u128;
            let unpadded = if ambiguous_zero { !body.contains('.') && (n > 0 || body.contains('e')) } else { scale <= 0 && zero_pad > cfg.padding as u128 };
            let default_unpadded = scale <= 0 && zero_pad > DEFAULT.padding as u128;
            let want = round_to_scale(&c.d.bigint(), scale, n, cfg.mode);
            let want_default = round_to_scale(&c.d.bigint(), scale, n, DEFAULT.mode);
            v.nontrivial = unpadded != default_unpadded || want != want_default;
            if unpadded {
                ensure!(v, !body.contains('.'), "C20/unpadded-has-point", "{:?} should be unpadded (padding {} > limit {})", show(&text), zero_pad, cfg.padding);
                let digits = c.d.int.trim_start_matches('-');
                let want_body = if scale < 0 { format!("{}e+{}", digits, -scale) } else { digits.to_string() };
                ensure!(v, body == want_body, "C20/unpadded-text", "{{:.{}}} beyond the padding limit {} printed {:?}, expected the unpadded form {:?}", n, cfg.padding, show(body), show(&want_body));
                match parse_reference(text.as_bytes()) {
                    Some((i, s)) => ensure!(v, Dec::new(i, s as i128).eq_val(&m), "C20/unpadded-value", "{:?} does not denote the exact value {}", show(&text), m.show()),
                    None => ensure!(v, false, "C20/precision-not-a-numeral", "{:?} is not a numeral", show(&text)),
                }
            } else {
                let (ip, fp) = match body.split_once('.') {
                    Some((a, b)) => (a, Some(b)),
                    None => (body, None),
                };
                let shape_ok = !ip.is_empty() && ip.bytes().all(|b| b.is_ascii_digit()) && (ip == "0" || !ip.starts_with('0')) && match fp {
                    None => n == 0,
                    Some(f) => n > 0 && f.len() as i128 == n && f.bytes().all(|b| b.is_ascii_digit()),
                };
                ensure!(v, shape_ok, "C20/precision-shape", "{{:.{}}} printed {:?} (padding {} within limit {})", n, show(&text), zero_pad, cfg.padding);
                if shape_ok {
                    let (i, s) = parse_reference(text.as_bytes()).unwrap();
                    ensure!(v, s as i128 == n && i == want, "C20/precision-value", "{{:.{}}} of {} printed {:?} expected {}e{} under {}", n, m.show(), show(&text), want, -n, cfg.mode.name());
                }
            }
        }
    }
    v
}

// ---------------------------------------------------------------- generators

fn pair_strategy() -> BoxedStrategy<Pair> {
    (gen::decimal(120, 60), gen::decimal(120, 60), 0..6u8, 0u32..40, 0u32..40)
        .prop_map(|(a, b, sp, i, j)| {
            let b = if b.is_zero() { D::new("7", b.scale) } else { b };
            match sp {
                0 => {
                    let d = num_bigint::BigInt::from(2u8).pow(i) * num_bigint::BigInt::from(5u8).pow(j);
                    Pair { a, b: D::new(d.to_string(), b.scale) }
                }
                _ => Pair { a, b },
            }
        })
        .boxed()
}

fn num_strategy() -> BoxedStrategy<Num> {
    (gen::sdigits(80), -40i64..=40, -6i64..=6, 0..4u8)
        .prop_map(|(int, scale, off, how)| {
            let int = if int == "0" { "3".to_string() } else { int };
            let nd = int.trim_start_matches('-').len() as i64;
            let round_to = match how {
                0 => scale - 1,
                1 => scale - nd + off,
                _ => scale - (nd / 2) + off,
            };
            Num { d: D::new(int, scale), round_to }
        })
        .boxed()
}

fn exp_strategy() -> BoxedStrategy<ExpArg> {
    (gen::udigits(12), any::<bool>(), -8i64..=1).prop_map(|(digits, neg, mag)| {
        let digits = if digits == "0" { "2".to_string() } else { digits };
        let nd = digits.len() as i64;
        ExpArg { d: D::new(if neg { format!("-{}", digits) } else { digits }, nd - mag) }
    })
    .boxed()
}

const TAIL_SHAPES: &[u8] = &[0, 1, 5, 6, 7, 8, 10, 2, 4, 14, 14];

fn fmt_strategy() -> BoxedStrategy<Fmt> {
    let cfg = build_cfg();
    let pad = cfg.padding as i64;
    (
        gen::digspec_shapes(240, TAIL_SHAPES),
        any::<bool>(),
        -60i64..=260,
        prop_oneof![2 => Just(None), 3 => (0u32..12).prop_map(Some), 2 => (-4i64..=4).prop_map(move |d| Some((pad + d).max(0) as u32))],
        0..10u8,
        -4i64..=4,
    )
        .prop_map(move |(spec, neg, scale, prec, aim, d)| {
            let digits = gen::digits_of(&spec);
            let nd = digits.len() as i64;
            // the tail families place their tail at this cut (see gen::digits_of)
            let cut = gen::tail_cut(&spec) as i64;
            let (scale, prec) = match (aim, prec) {
                // integers whose padding sits at the configured limit
                (0, Some(n)) => (-((pad - n as i64 - 1 + d).max(0)), Some(n)),
                (1, Some(n)) => (scale.min(0), Some(n)),
                // rounding exactly at the tail family's cut: N = scale - (nd - cut)
                (2..=6, Some(_)) => {
                    let scale = scale.max(nd - cut);
                    (scale, Some((scale - (nd - cut)).clamp(0, 1100) as u32))
                }
                // rounding point just left of / at the first digit
                (7, Some(_)) => (scale.max(nd), Some((scale.max(nd) - nd).clamp(0, 1100) as u32)),
                (_, p) => (scale, p),
            };
            Fmt { d: D::new(if neg && digits != "0" { format!("-{}", digits) } else { digits }, scale), prec, sci: aim == 9 && prec.is_some() }
        })
        .boxed()
}

pub fn run(ctx: &Ctx) {
    let cfg = build_cfg();
    let t = ctx.tier;
    ctx.listed("context-default", "unit", "Context::default() / RoundingMode::default() report the configured values", vec![Unit { what: "context".into() }], check_context);
    if cfg.precision <= 3 {
        ctx.enumerated(
            "division-small-exhaustive",
            "pair",
            999 * 999,
            true,
            "EXHAUSTIVE: every numerator and denominator in 1..999 (configured precision <= 3)",
            |i| Some(Pair { a: D::new((1 + i / 999).to_string(), 0), b: D::new((1 + i % 999).to_string(), 0) }),
            check_div,
        );
    } else {
        ctx.enumerated(
            "division-small",
            "pair",
            300 * 300,
            true,
            "EXHAUSTIVE: every numerator and denominator in 1..300",
            |i| Some(Pair { a: D::new((1 + i / 300).to_string(), 0), b: D::new((1 + i % 300).to_string(), 0) }),
            check_div,
        );
    }
    ctx.enumerated(
        "division-signed-small",
        "pair",
        61 * 121,
        true,
        "EXHAUSTIVE: numerators -30..30 x denominators -60..60 (zero skipped): both signs through every decimal and primitive form",
        |i| {
            let (a, b) = (i as i64 / 121 - 30, i as i64 % 121 - 60);
            if b == 0 {
                return None;
            }
            Some(Pair { a: D::new(a.to_string(), 0), b: D::new(b.to_string(), 0) })
        },
        check_div,
    );
    ctx.generated("division-random", "pair", t.pick(10_000, 40_000), "decimals of 1..120 digits, divisors 2^i*5^j among them", pair_strategy, check_div);
    ctx.generated("default-vs-explicit", "num", t.pick(4_000, 16_000), "sqrt, cbrt, inverse, round: default form vs explicit context at the configured values vs oracle", num_strategy, check_num);
    ctx.generated("exp-digits", "exp", t.pick(400, 1_600), "exp delivers the configured number of digits (|x| < 10)", exp_strategy, check_exp_digits);
    // Display thresholds: every (digit count 1..6, leading zeros 0..lower+4) and (trailing zeros 0..upper+8, plus 16..26)
    let lower = cfg.lower as i64;
    let upper = cfg.upper as i64;
    let lead_n = (lower + 5) as u64;
    let trail_n = (upper + 9).max(27) as u64;
    ctx.enumerated(
        "display-thresholds",
        "fmt",
        6 * 2 * (lead_n + trail_n),
        true,
        "EXHAUSTIVE: 1..6 digits x both signs x (every leading-zero count 0..lower+4, every trailing-zero count 0..max(upper+8, 26))",
        move |i| {
            let mut k = i;
            let nd = 1 + (k % 6) as usize;
            k /= 6;
            let neg = k % 2 == 1;
            k /= 2;
            let digits = &"738291"[..nd];
            let int = if neg { format!("-{}", digits) } else { digits.to_string() };
            let scale = if k < lead_n { nd as i64 + k as i64 } else { -((k - lead_n) as i64) };
            Some(Fmt { d: D::new(int, scale), prec: None, sci: false })
        },
        check_fmt,
    );
    ctx.enumerated(
        "precision-format-small",
        "fmt",
        3999 * 9 * 5 * 2,
        true,
        "EXHAUSTIVE: every |n| < 2000 x scales -2..6 x N 0..4 x {{:.N}}, {{:.Ne}} (value and reference) under the configured rounding mode",
        |i| {
            let mut k = i;
            let sci = k % 2 == 1;
            k /= 2;
            let n = (k % 5) as u32;
            k /= 5;
            let scale = (k % 9) as i64 - 2;
            k /= 9;
            Some(Fmt { d: D::new((k as i64 - 1999).to_string(), scale), prec: Some(n), sci })
        },
        check_fmt,
    );
    ctx.generated("precision-format", "fmt", t.pick(20_000, 80_000), "{:.N} (and plain Display) on random values; integers whose padding sits at the configured limit +-4; short tails rounded at N", fmt_strategy, check_fmt);
}
