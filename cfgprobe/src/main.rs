//! bdcfg - probe binary for C20, rebuilt once per build configuration.
//!
//!   bdcfg run <quick|thorough> --out <partial.json> --expect <P>,<Mode>,<lower>,<upper>,<padding>
//!   bdcfg replay <file> --expect ...
#![allow(dead_code)]

#[path = "../../ws/harness/src/conv.rs"]
mod conv;
#[path = "../../ws/harness/src/engine.rs"]
mod engine;
#[path = "../../ws/harness/src/gen.rs"]
mod gen;
mod c20;

use engine::{Ctx, RunMode, Tier};

fn main() {
    let a: Vec<String> = std::env::args().collect();
    engine::install_quiet_panic_hook();
    let expect = a.iter().position(|x| x == "--expect").and_then(|i| a.get(i + 1)).cloned().unwrap_or_default();
    let cfg = conv::build_cfg();
    let have = format!("{},{},{},{},{}", cfg.precision, cfg.mode.name(), cfg.lower, cfg.upper, cfg.padding);
    if expect != have {
        eprintln!("bdcfg: built for configuration {} but {} was expected (stale build?)", have, expect);
        std::process::exit(2);
    }
    let seed: u64 = std::env::var("VERIF_SEED").ok().and_then(|s| s.trim().parse::<i128>().ok()).map(|v| v as u64).unwrap_or(0);
    let cfg_json = serde_json::json!({"precision": cfg.precision, "mode": cfg.mode.name(), "lower": cfg.lower, "upper": cfg.upper, "padding": cfg.padding});
    match a.get(1).map(|s| s.as_str()) {
        Some("run") => {
            let tier = if a.get(2).map(|s| s.as_str()) == Some("thorough") { Tier::Thorough } else { Tier::Quick };
            let out = a.iter().position(|x| x == "--out").and_then(|i| a.get(i + 1)).cloned();
            // the seed is mixed with the configuration so that configurations do not share inputs
            let ctx = Ctx::new("C20", tier, seed ^ (cfg.precision * 0x9e37 + cfg.mode.index() as u64 * 131 + cfg.lower * 17 + cfg.upper * 7 + cfg.padding), "rel");
            *ctx.extra.lock().unwrap() = Some(cfg_json.clone());
            let reg = engine::load_regress("C20");
            let reg: Vec<_> = reg.into_iter().filter(|(_, _, file)| file_config_matches(file, &cfg_json)).collect();
            if !reg.is_empty() {
                *ctx.mode.lock().unwrap() = RunMode::Replay(reg);
                c20::run(&ctx);
                *ctx.mode.lock().unwrap() = RunMode::Normal;
            }
            if !ctx.stop.load(std::sync::atomic::Ordering::SeqCst) {
                c20::run(&ctx);
            }
            let rep = ctx.report.lock().unwrap();
            for (sig, (n, ex)) in rep.known_hits.iter() {
                let what = ctx.known.open.iter().find(|k| k.property == "C20" && &k.sig == sig).map(|k| k.what.clone()).unwrap_or_default();
                println!("KNOWN-FINDING: property=C20 sig={} hits={} config={} {} (e.g. {})", sig, n, have, what, engine::truncate(ex, 300));
            }
            let mut stages = serde_json::to_value(&rep.stages).unwrap();
            for s in stages.as_array_mut().unwrap() {
                let name = format!("[{}] {}", have, s["stage"].as_str().unwrap_or(""));
                s["stage"] = serde_json::Value::String(name);
            }
            let partial = serde_json::json!({
                "property": "C20", "tier": tier.name(), "seed": seed, "flavour": "rel", "config": cfg_json,
                "stages": stages, "violations": rep.violations,
                "known_hits": rep.known_hits.iter().map(|(k, (n, e))| serde_json::json!({"sig": k, "hits": n, "example": e, "config": have})).collect::<Vec<_>>(),
                "notes": rep.notes, "wall_s": ctx.start.elapsed().as_secs_f64(),
            });
            if let Some(out) = out {
                std::fs::write(&out, serde_json::to_string_pretty(&partial).unwrap()).expect("write partial");
            }
            std::process::exit(if rep.violations.is_empty() { 0 } else { 1 });
        }
        Some("replay") => {
            let file = a.get(2).cloned().unwrap_or_default();
            let entry = match engine::load_replay_file(std::path::Path::new(&file)) {
                Some(e) => e,
                None => {
                    eprintln!("bdcfg: cannot read replay file {}", file);
                    std::process::exit(2);
                }
            };
            let mut ctx = Ctx::new("C20", Tier::Quick, seed, "rel");
            ctx.strict = std::env::var("VERIF_STRICT").map(|s| s == "1").unwrap_or(false);
            *ctx.extra.lock().unwrap() = Some(cfg_json);
            *ctx.mode.lock().unwrap() = RunMode::Replay(vec![entry]);
            c20::run(&ctx);
            let rep = ctx.report.lock().unwrap();
            for (sig, (n, _)) in rep.known_hits.iter() {
                println!("KNOWN-FINDING: property=C20 sig={} hits={}", sig, n);
            }
            if rep.violations.is_empty() {
                println!("replay [{}]: property C20 holds on this case", have);
                std::process::exit(0);
            }
            std::process::exit(1);
        }
        _ => {
            eprintln!("usage: bdcfg run <tier> --out <file> --expect <cfg> | replay <file> --expect <cfg>");
            std::process::exit(2);
        }
    }
}

fn file_config_matches(file: &str, cfg: &serde_json::Value) -> bool {
    std::fs::read_to_string(file).ok().and_then(|t| serde_json::from_str::<serde_json::Value>(&t).ok()).map(|v| &v["config"] == cfg).unwrap_or(false)
}
