#!/bin/bash
# C20 driver: rebuild the probe under each build configuration and run it.
#   cfgprobe/run.sh <quick|thorough>          (called by ./check C20 <tier>)
#   cfgprobe/run.sh replay <file>
set -u
HERE=$(cd "$(dirname "$0")" && pwd)
ROOT=$(dirname "$HERE")
WORK=$ROOT/.work
TDIR=$WORK/target-cfg
mkdir -p "$WORK" "$ROOT/evidence"
export CARGO_NET_OFFLINE=true
export RUSTFLAGS="--cfg bigdecimal_verif"
export VERIF_SEED=${VERIF_SEED:-0}

# precision mode lower upper padding [chk]   (chk: build with debug assertions and overflow checks)
# quick: every rounding mode once, precisions on both sides of the stock 100, every threshold / limit value
QUICK_CONFIGS="
1 Up 1 0 0
3 Floor 9 40 5
34 HalfDown 5 2 1000
250 Ceiling 5 15 5
16 Down 1 40 1000 chk
2 HalfUp 9 2 0
100 HalfEven 1 0 5
"
# thorough: all 56 (precision, mode) pairs; the three formatting parameters cycle with coprime periods so that
# every value of each meets every precision and every mode; every fifth row is built with debug assertions
THOROUGH_CONFIGS=$(
    i=0; pi=0
    for P in 1 2 3 7 16 34 100 250; do
        mi=0
        for M in Up Down Ceiling Floor HalfUp HalfDown HalfEven; do
            LO=$(echo "1 5 9" | cut -d" " -f$(((pi + 2 * mi) % 3 + 1)))
            UP=$(echo "0 2 15 40" | cut -d" " -f$(((pi + mi) % 4 + 1)))
            PAD=$(echo "0 5 1000" | cut -d" " -f$(((2 * pi + mi) % 3 + 1)))
            CHK=""; [ $((i % 5)) -eq 2 ] && CHK=chk
            echo "$P $M $LO $UP $PAD $CHK"
            i=$((i+1)); mi=$((mi+1))
        done
        pi=$((pi+1))
    done
)

build_cfg() { # P mode lower upper padding
    RUST_BIGDECIMAL_DEFAULT_PRECISION=$1 RUST_BIGDECIMAL_DEFAULT_ROUNDING_MODE=$2 \
    RUST_BIGDECIMAL_FMT_EXPONENTIAL_LOWER_THRESHOLD=$3 RUST_BIGDECIMAL_FMT_EXPONENTIAL_UPPER_THRESHOLD=$4 \
    RUST_BIGDECIMAL_FMT_MAX_INTEGER_PADDING=$5 \
    cargo build ${PROFILE_FLAG:---release} --manifest-path "$HERE/Cargo.toml" --target-dir "$TDIR" >"$WORK/build-cfg.log" 2>&1
}

if [ "${1:-}" = replay ]; then
    file=${2:?file}
    cfg=$(python3 -c "import json,sys; c=json.load(open(sys.argv[1]))['config']; print(c['precision'],c['mode'],c['lower'],c['upper'],c['padding'])" "$file") || exit 2
    set -- $cfg
    PROFILE_FLAG="--release"
    build_cfg "$@" || { echo "C20: build failed for configuration $*; see $WORK/build-cfg.log" >&2; tail -n 30 "$WORK/build-cfg.log" >&2; exit 2; }
    "$TDIR/release/bdcfg" replay "$file" --expect "$1,$2,$3,$4,$5"
    exit $?
fi

tier=${1:-quick}
configs=$QUICK_CONFIGS
[ "$tier" = thorough ] && configs=$THOROUGH_CONFIGS
rm -f "$ROOT/evidence/C20.json" "$WORK"/partial-C20-*.json
rc=0
i=0
partials=()
while read -r P M LO UP PAD CHK; do
    [ -z "${P:-}" ] && continue
    i=$((i+1))
    PROFILE_FLAG="--release"; BINDIR=release
    if [ "${CHK:-}" = chk ]; then PROFILE_FLAG="--profile chk"; BINDIR=chk; fi
    export PROFILE_FLAG
    if ! build_cfg "$P" "$M" "$LO" "$UP" "$PAD"; then
        echo "C20: build failed for configuration $P $M $LO $UP $PAD; see $WORK/build-cfg.log" >&2
        tail -n 30 "$WORK/build-cfg.log" >&2
        exit 2
    fi
    part=$WORK/partial-C20-$tier-$i.json
    timeout --signal=KILL 1800 "$TDIR/$BINDIR/bdcfg" run "$tier" --out "$part" --expect "$P,$M,$LO,$UP,$PAD"
    r=$?
    if [ $r -eq 1 ]; then rc=1; elif [ $r -ne 0 ]; then echo "C20: probe exited with $r for configuration $P $M $LO $UP $PAD" >&2; exit 2; fi
    [ -f "$part" ] && partials+=("$part")
    [ $rc -ne 0 ] && break
done <<< "$configs"

# evidence is assembled by the main harness binary (built by ./check before this script runs)
BIN=$WORK/target/release/bdverif
if [ ! -x "$BIN" ]; then
    (cd "$ROOT/ws" && CARGO_TARGET_DIR=$WORK/target cargo build --release -p bdverif >"$WORK/build-rel.log" 2>&1) || exit 2
fi
"$BIN" finalize C20 "$tier" "$ROOT/evidence/C20.json" "${partials[@]}" || exit 2
exit $rc
